"""C17 — safe API calls never access memory outside the buffers they were given  (proof, partial).

Gate 1 (proof): lake build Poulpy.Props.C17 (layout invariant over all histories, at/raw/MatZnx::at ranges inside the
        buffer, cast arithmetic, SIMD loop index lemmas, pre-repair reader breaks the invariant).
Gate 2 (correspondence): random histories alloc|from_bytes → set_size|reallocate_limbs|to_mut|read_from on the real
        VecZnx; after every step dimension fields, buffer length and the largest end offset of any at(i,j)/raw() slice
        (from the slices' real pointers) are compared with the model; MatZnx::at views likewise.
Validator: canary-padded operand/result windows for add, rotate, automorphism, normalize, dft→idft→normalize,
        svp on all four back ends, N ∈ {2,4,8,16}, odd limb counts: bytes outside the windows must be untouched.
        Thorough tier: the same cases under AddressSanitizer (if the instrumented build succeeds).
Oracle: every slice printed by the harness lies inside its allocation (`inside=1`, maxEnd <= len); canaries intact.
"""
import os
import re
import subprocess
import time

from . import common

KEY_ZERO_TAKE = "poulpy-cpu-ref/src/hal_defaults/scratch.rs:take_slice_aligned:zero-length-take:aligned_offset>len"
KEY_DEALLOC = "poulpy-hal/src/lib.rs:alloc_aligned_custom_u8:dealloc-layout"
KEY_CNV_COL = "poulpy-cpu-ref/src/reference/fft64/convolution.rs:convolution_by_const_apply+convolution_apply_dft:column-index-unchecked"
U64 = 1 << 64


def le8(x):
    return (x % U64).to_bytes(8, "little")


def stream(n, cols, size, mx, ln=None, payload=None):
    ln = n * cols * size * 8 if ln is None else ln
    pl = bytes((3 * i + 1) & 255 for i in range(min(n * cols * size * 8, 4096))) if payload is None else payload
    return le8(n) + le8(cols) + le8(size) + le8(mx) + le8(ln) + pl


def gen_history(rng):
    n = rng.choice([1, 2, 3, 4, 8, 16])
    cols = rng.choice([1, 1, 2, 3])
    size = rng.choice([0, 1, 2, 3, 5])
    r = rng.below(20)
    if r < 15:
        ctor = f"alloc:{n},{cols},{size}"
    elif r < 19:
        ctor = f"frombytes:{n},{cols},{size},{n * cols * size * 8}"
    else:
        ctor = f"frombytes:{n},{cols},{size},{n * cols * size * 8 + rng.choice([8, 64])}"
    steps = []
    cur = (n, cols, size, size)
    for _ in range(rng.below(9)):
        k = rng.below(10)
        if k < 3:
            steps.append(f"ss:{rng.choice([0, 1, cur[3], max(cur[3], 1) - 1, cur[3] + 1, rng.below(7)])}")
        elif k < 5:
            steps.append(f"rl:{rng.choice([0, 1, 2, 3, 4, 6, cur[2]])}")
        elif k < 6:
            steps.append("vw")
        else:
            cls = rng.below(8)
            n2, c2, s2 = rng.choice([(cur[0], cur[1], cur[2]), (cur[0], cur[1], max(cur[2], 1) - 1), (1, 1, 1), (cur[0] * 2, cur[1], cur[2]), (2, 1, 1)])
            m2 = s2
            b = stream(n2, c2, s2, m2)
            if cls == 0:
                b = stream(n2, c2, s2, 1000)                      # the pre-repair witness
            elif cls == 1:
                b = stream(n2, c2, s2, s2 + 1)
            elif cls == 2:
                b = b[:rng.below(len(b) + 1)]                    # truncated
            elif cls == 3:
                b = stream(1 << 61, 8, 1, 1, 0, b"")             # overflowing product
            elif cls == 4:
                b = stream(n2, c2, s2 + 1, s2)                   # size > max_size
            steps.append("rd:" + (b.hex() if b else "-"))
    return ctor, steps


def rel_sweep_lines():
    """violating-argument calls (operands whose ring degree / column count differs from what the entry point assumes):
    conditions that the library checked only under debug assertions.  Every line must panic or leave memory intact."""
    lines = []
    ops = ["add", "sub", "rotate", "automorphism", "normalize", "bignormalize", "dft", "dftadd", "svp", "vmp"]
    for be in ("fft64ref", "fft64avx", "ntt120ref", "ntt120avx"):
        for op in ops:
            for (nm, nr, na) in ((8, 16, 16), (16, 8, 8), (16, 16, 8), (8, 8, 16), (16, 8, 16), (8, 16, 8)):
                for (cols, size) in ((1, 1), (1, 2), (2, 3)):
                    for extra in ((0, 1, 2) if op in ("normalize", "bignormalize", "vmp") else (0,)):
                        lines.append(f"{len(lines)} mism be={be} op={op} nm={nm} nr={nr} na={na} cols={cols} size={size} extra={extra}")
            if op == "vmp":
                for (cols, size) in ((1, 2), (2, 3), (1, 3)):
                    for extra in (1, 2):
                        lines.append(f"{len(lines)} mism be={be} op={op} nm=8 nr=8 na=8 cols={cols} size={size} extra={extra}")
    # the safe primitive-trait methods over the NTT120Avx bbc product kernels: result / operands shorter than `ell` rows need
    for (op, wx, wy, wr) in (("bbc", 8, 8, 4), ("bbc1x2", 16, 16, 8), ("bbc2x2", 16, 32, 16)):
        for ell in (0, 1, 3):
            for r in sorted({wr, wr // 2, 0}):
                for (dx, dy) in ((0, 0), (1, 0), (0, 1)):
                    if ell == 0 and (dx or dy):
                        continue
                    lines.append(f"{len(lines)} prim op={op} ell={ell} res={r} x={wx * (ell - dx)} y={wy * (ell - dy)}")
    return lines


def run_resilient(ctx, binp, lines):
    """run the `rel` replays; a call that kills the process (SIGSEGV after a wild access) is answered `crashed:<rc>` and the
    remaining lines continue in a fresh process"""
    out, todo = [], list(lines)
    while todo:
        rc_, o, _ = ctx.run_lines(binp, ["rel"], todo)
        o = [x for x in o if len(x.split()) >= 2]
        out += o
        if len(o) >= len(todo):
            break
        out.append(f"{todo[len(o)].split()[0]} crashed:{rc_}")
        todo = todo[len(o) + 1:]
    return out


def run(ctx):
    rng = ctx.rng
    quick = ctx.tier == "quick"
    broken = []
    disagree = []
    oracle_fail = []
    ctx.trusted += ["Model/Layout.lean as the reading of the layout types' constructors, set_size, reallocate_limbs, at/at_ptr/raw, MatZnx::at, cast",
                    "canaries / AddressSanitizer observe writes (canaries) and reads+writes (ASan) of the sampled calls only"]
    ctx.assumptions += [
        "the ~480 unsafe blocks and ~1300 intrinsics of the back ends are NOT modelled individually: the theorems cover the index arithmetic that feeds them",
        "admissible histories start from alloc / from_bytes / scratch take_*; from_data and public fields can build views violating Inv (stated as a theorem)",
    ]
    ok, failures = ctx.proof_gate(["Poulpy.Props.C17"])
    if not ok:
        broken += failures
    drv = ctx.driver()
    binp = ctx.build_harness()
    if drv is None:
        broken.append("model driver does not build")
    if binp is None:
        broken.append("harness build failed: " + getattr(ctx, "build_error", "")[-400:])

    canary_lines = []
    asan_extra = []          # admissible kernel-footprint calls, re-run under ASan in the thorough tier (reads)
    if drv is not None and binp is not None:
        # ---- histories
        nh = 1500 if quick else 40000
        hs = [gen_history(rng) for _ in range(nh)]
        lines = [f"{i} hist ctor={c} steps={';'.join(s) if s else '-'}" for i, (c, s) in enumerate(hs)]
        rc, hout, err = ctx.run_lines(binp, ["layout"], lines)
        rc2, mout, _ = ctx.run_lines(drv, [], [l.replace(" hist ", " layout hist ", 1) for l in lines])
        if len(hout) != len(lines):
            broken.append(f"harness layout stopped after {len(hout)} of {len(lines)} histories (rc={rc}) {err[-200:]}")
        nsteps = 0
        for i, (c, s) in enumerate(hs):
            if i >= len(hout) or i >= len(mout):
                break
            hstates = hout[i].split(" ", 1)[1].split("|") if " " in hout[i] else []
            mstates = mout[i].split(" ", 1)[1].split("|") if " " in mout[i] else []
            kinds = tuple(sorted(set(x.split(":")[0] for x in s)))
            ctx.count_case(("hist", c.split(":")[0], kinds, len(s), hstates[-1].startswith("panic") if hstates else None), nontrivial=len(s) > 0)
            nsteps += len(hstates)
            hcmp = [x if x.startswith("panic") else ",".join(x.split(",")[:6]) for x in hstates]
            if hcmp != mstates:
                ctx.disagreements += 1
                if len(disagree) < 10:
                    disagree.append({"case": lines[i][:600], "model": mout[i][:400], "impl": hout[i][:400]})
            for x in hstates:
                if x.startswith("panic"):
                    continue
                f = x.split(",")
                if f[6] != "1" or int(f[5]) > int(f[4]):
                    ctx.oracle_failures += 1
                    if len(oracle_fail) < 10:
                        oracle_fail.append({"case": lines[i][:600], "state": x, "why": "an at(i,j)/raw() slice of the real object lies outside its buffer"})
            if len(ctx.samples) < 5 and len(s) >= 4:
                ctx.samples.append({"history": lines[i][:300], "impl": hout[i][:300]})
        ctx.cov["history_states_compared"] = nsteps
        # ---- MatZnx::at
        ml = []
        for n in (1, 2, 4, 8):
            for rows in (1, 2, 3):
                for ci in (1, 2):
                    for co in (1, 2, 3):
                        for size in (1, 2, 3):
                            ml.append(f"{len(ml)} mat p={n},{rows},{ci},{co},{size}")
        rc, hout, _ = ctx.run_lines(binp, ["layout"], ml)
        rc, mout, _ = ctx.run_lines(drv, [], [l.replace(" mat ", " layout mat ", 1) for l in ml])
        for a, b, l in zip(hout, mout, ml):
            ctx.count_case(("mat", l.split("=")[1]))
            ha = a.split(" ", 1)[1].split(",")
            if ",".join(ha[:2]) != b.split(" ", 1)[1]:
                ctx.disagreements += 1
                disagree.append({"case": l, "model": b, "impl": a})
            if ha[2] != "1" or int(ha[1]) > int(ha[0]):
                ctx.oracle_failures += 1
                oracle_fail.append({"case": l, "impl": a, "why": "MatZnx::at view outside the buffer"})
        # ---- prepared / big layouts: trait at(i,j) / raw() of VecZnxBig, VecZnxDft, SvpPPol, CnvPVecL/R, VmpPMat on
        #      the four back ends (scalar widths 8/8 and 16/32) vs the model; NTT120 consume (in-place compaction)
        pl = []
        for be in ("fft64ref", "ntt120ref", "fft64avx", "ntt120avx"):
            for n in (2, 4, 8, 16):
                for cols in (1, 2, 3):
                    for size in (1, 2, 3, 5):
                        for kind in ("big", "dft", "cnvl", "cnvr"):
                            pl.append(f"{len(pl)} prep be={be} kind={kind} p={n},{cols},{size}")
                    pl.append(f"{len(pl)} prep be={be} kind=svp p={n},{cols}")
                for (rows, ci, co, size) in ((1, 1, 1, 1), (2, 2, 3, 2), (3, 1, 2, 5), (1, 3, 1, 2), (0, 1, 1, 1), (2, 1, 0, 1), (0, 2, 2, 2)):
                    pl.append(f"{len(pl)} prep be={be} kind=vmp p={n},{rows},{ci},{co},{size}")
                for cols in (1, 2):
                    for size in (1, 3, 5):
                        pl.append(f"{len(pl)} consume be={be} p={n},{cols},{size}")
        rc, pout, _ = ctx.run_lines(binp, ["layout"], pl)
        rc, pmod, _ = ctx.run_lines(drv, [], [re.sub(r"^(\d+) (prep|consume) be=(fft64|ntt120)(ref|avx)", r"\1 layout \2 be=\3", l) for l in pl])
        if len(pout) != len(pl):
            broken.append(f"harness prep run stopped after {len(pout)} of {len(pl)}")
        for l, a, b in zip(pl, pout, pmod):
            t = l.split()
            ctx.count_case(("prep", t[1], t[2], t[3] if t[1] == "prep" else "", t[-1]))
            av = a.split(" ", 1)[1]
            bv = b.split(" ", 1)[1]
            if av.startswith("panic") or bv.startswith("panic"):
                # degenerate shapes: the accessor's own assertion (offset + n <= n*poly_count) must fire on both sides
                if av != bv:
                    ctx.disagreements += 1
                    disagree.append({"case": l, "model": b, "impl": a})
                continue
            if t[1] == "consume":
                same, rest = av.split(" ")
                cmp_a = same + " " + ",".join(rest.split(",")[:3])
                inside = rest.split(",")[3]
                if same != "same=1":
                    ctx.oracle_failures += 1
                    oracle_fail.append({"case": l, "impl": a, "why": "vec_znx_idft_apply_consume differs from vec_znx_idft_apply (a source block was overwritten before it was read?)"})
            else:
                cmp_a = ",".join(av.split(",")[:3])
                inside = av.split(",")[3] if av.count(",") >= 3 else "?"
            if cmp_a != bv:
                ctx.disagreements += 1
                if len(disagree) < 10:
                    disagree.append({"case": l, "model": b, "impl": a})
            if inside != "1":
                ctx.oracle_failures += 1
                oracle_fail.append({"case": l, "impl": a, "why": "a trait at(i,j)/raw() slice of a prepared layout lies outside its buffer"})
        ctx.cov["prepared_layout_cases"] = len(pl)
        # ---- kernels with non-trivial addressing through the HAL API: footprint recorder (two pre-fills of a canary-framed
        #      result: written elements + untouched frame) vs the model's write set (Model/Kernels.lean); the inadmissible
        #      column indices that the FFT64 convolution entry points do not check are the `inb=0` cases of the model
        kl = []
        for be in ("fft64ref", "fft64avx", "ntt120ref", "ntt120avx"):
            for n in (8, 16):
                for (rc, rs, rcol) in ((1, 1, 0), (2, 2, 1), (2, 3, 0), (1, 5, 0)):
                    for (ac, asz, acol) in ((1, 1, 0), (2, 2, 1), (1, 3, 0)):
                        for bs in (1, 2, 4):
                            for off in (0, 1, 3):
                                kl.append((be, "cnvconst", [n, rc, rs, rcol, ac, asz, acol, bs, off], True))
                        for (bc, bsz, bcol) in ((1, 1, 0), (2, 3, 1)):
                            for off in (0, 2):
                                kl.append((be, "cnvapply", [n, rc, rs, rcol, ac, asz, acol, bc, bsz, bcol, off], True))
                for (rows, ci, co, sz) in ((2, 1, 1, 1), (3, 2, 1, 2), (2, 1, 2, 3), (4, 1, 5, 1), (1, 2, 3, 1)):
                    for asz in (1, rows, rows + 1):
                        for rsz in (1, sz, sz + 2):
                            for lo in (0, 1, 2):
                                kl.append((be, "vmpapply", [n, rows, ci, co, sz, asz, rsz, lo], True))
            # column index one past the end (not an admissible argument; the entry points must reject it)
            for pp in ([8, 1, 1, 1, 1, 1, 0, 1, 0], [8, 1, 2, 1, 1, 2, 0, 2, 0], [16, 2, 2, 2, 1, 2, 0, 1, 0], [8, 1, 1, 0, 1, 1, 1, 1, 0]):
                kl.append((be, "cnvconst", pp, False))
            for pp in ([8, 1, 1, 0, 1, 1, 1, 1, 1, 0, 0], [8, 1, 1, 0, 1, 1, 0, 1, 1, 1, 0], [16, 2, 3, 1, 2, 2, 2, 1, 2, 0, 1]):
                kl.append((be, "cnvapply", pp, False))
        klines = [f"{i} kern be={be} op={op} p={','.join(map(str, pp))}" for i, (be, op, pp, adm) in enumerate(kl)]
        rc_, kout, _ = ctx.run_lines(binp, ["layout"], klines)
        rc_, kmod, _ = ctx.run_lines(drv, [], [f"{i} layout kern op={op} p={','.join(map(str, pp))}" for i, (be, op, pp, adm) in enumerate(kl)])
        if len(kout) != len(klines):
            broken.append(f"harness kern run stopped after {len(kout)} of {len(klines)} (rc={rc_})")
        cnv_col = None
        for (be, op, pp, adm), l, a, b in zip(kl, klines, kout, kmod):
            ctx.count_case(("kern", be, op, adm, tuple(pp[:1] + pp[-3:])))
            at = a.split()
            bt = dict(x.split("=", 1) for x in b.split()[1:] if "=" in x)
            ad = dict(x.split("=", 1) for x in at[2:] if "=" in x)
            if adm:
                if at[1] != "ok" or ad.get("canaries") != "intact":
                    ctx.oracle_failures += 1
                    if len(oracle_fail) < 20:
                        oracle_fail.append({"case": l, "impl": a, "why": "admissible HAL call panicked or wrote outside its result buffer"})
                    continue
                if bt.get("inb") != "1":
                    ctx.disagreements += 1
                    disagree.append({"case": l, "model": b, "why": "model footprint not in bounds for an admissible call"})
                if be.startswith("fft64") and ad.get("W") != bt.get("W"):
                    ctx.disagreements += 1
                    if len(disagree) < 10:
                        disagree.append({"case": l, "model": b, "impl": a, "why": "written elements differ from the model's write set"})
            else:
                # inadmissible column: the only acceptable behaviour is a panic; the model of the shipped code says out of bounds
                if be.startswith("fft64") and bt.get("inb") != "0":
                    ctx.disagreements += 1
                    disagree.append({"case": l, "model": b, "why": "model does not see the unchecked column"})
                if at[1] == "ok":
                    cnv_col = cnv_col or {"case": l, "impl": a, "model": b,
                                          "meaning": "canaries=broken:K = first byte modified K bytes after the start of the result buffer (outside it); ok with an out-of-range a_col/b_col = silent out-of-bounds read"}
        ctx.cov["kernel_footprint_cases"] = len(kl)
        asan_extra = [l for (be, op, pp, adm), l in zip(kl, klines) if adm]
        if cnv_col:
            ctx.violation("FFT64 convolution entry points do not check the column indices: out-of-bounds write (cnv_by_const_apply, AVX) / read (cnv_apply_dft)",
                          {"key": KEY_CNV_COL, "witness": cnv_col}, True, key=KEY_CNV_COL)
        # ---- violating arguments (ring degree / column mismatches), quick tier: the `release` profile (debug assertions ON):
        #      every call must panic or leave the canary frames of result and scratch intact
        rl = rel_sweep_lines()
        rout = run_resilient(ctx, binp, rl)
        for l, a in zip(rl, rout):
            t = l.split()
            ctx.count_case(("mism-release", t[2], t[3], a.split()[1].split(":")[0]))
            if "broken" in a or "crashed" in a:
                ctx.oracle_failures += 1
                if len(oracle_fail) < 20:
                    oracle_fail.append({"case": l, "impl": a, "profile": "release", "why": "safe call with an operand of another ring degree / column count / length wrote outside its result or scratch window (or crashed the process)",
                                        "rerun": f"printf '{l}\\n' | harness/target/release/pvh rel"})
        ctx.cov["mismatch_cases_release"] = len(rl)
        # ---- canaries
        for be in ("fft64ref", "ntt120ref", "fft64avx", "ntt120avx"):
            for n in (2, 4, 8, 16):
                for cols in (1, 2):
                    for size in (1, 3, 5):
                        for op in ("add", "rotate", "automorphism", "normalize", "dft", "svp"):
                            canary_lines.append(f"{len(canary_lines)} canary be={be} n={n} cols={cols} size={size} op={op}")
        rc, cout, err = ctx.run_lines(binp, ["layout"], canary_lines)
        if len(cout) != len(canary_lines):
            broken.append(f"harness canary run stopped after {len(cout)} of {len(canary_lines)} (rc={rc})")
        intact = 0
        for l, a in zip(canary_lines, cout):
            t = l.split()
            ctx.count_case(("canary", t[2], t[3], t[5], t[6]))
            if a.endswith("canaries=intact"):
                intact += 1
            else:
                ctx.oracle_failures += 1
                if len(oracle_fail) < 20:
                    oracle_fail.append({"case": l, "impl": a, "why": "write outside the operand windows / panic in an admissible call"})
        ctx.cov["canary_calls"] = len(canary_lines)
        ctx.cov["canary_intact"] = intact

    # ---- thorough: AddressSanitizer build of the same harness
    if not quick and binp is not None:
        t0 = time.time()
        env = dict(common.ENV, RUSTFLAGS="-Zsanitizer=address -C target-feature=+avx2,+fma")
        try:
            p = subprocess.run(["cargo", "build", "--release", "--offline", "--target", "x86_64-unknown-linux-gnu", "--target-dir", "target-asan"],
                               cwd=common.HARNESS, env=env, capture_output=True, text=True, timeout=1200)
            asan_ok = p.returncode == 0
            asan_msg = p.stderr[-300:]
        except subprocess.TimeoutExpired:
            asan_ok, asan_msg = False, "build timed out after 20 min"
        ctx.cov["asan_build"] = {"ok": asan_ok, "seconds": round(time.time() - t0, 1), "tail": "" if asan_ok else asan_msg}
        if asan_ok:
            ab = os.path.join(common.HARNESS, "target-asan", "x86_64-unknown-linux-gnu", "release", "pvh")
            env2 = dict(common.ENV, ASAN_OPTIONS="detect_leaks=0:abort_on_error=0:alloc_dealloc_mismatch=0")
            p = subprocess.run([ab, "layout"], input="\n".join(canary_lines + asan_extra) + "\n", capture_output=True, text=True, env=env2)
            rep = re.findall(r"ERROR: AddressSanitizer: (\S+)", p.stderr)
            ctx.cov["asan_reports"] = rep[:10]
            ctx.cov["asan_cases"] = len(p.stdout.split("\n")) - 1
            if rep:
                ctx.oracle_failures += 1
                oracle_fail.append({"why": "AddressSanitizer report", "reports": rep[:5], "stderr": p.stderr[:1500]})
        else:
            ctx.log("ASan build not available: " + asan_msg[-200:])

    # ---- scratch carving on the real arena: random take sequences from misaligned windows
    if drv is not None and binp is not None:
        rng = ctx.rng.fork()
        tl = []
        for k in range(600 if quick else 20000):
            mis = rng.choice([0, 0, 8, 16, 24, 32, 40, 48, 56, rng.below(64)])
            cnt = rng.range(1, 6)
            seq = [rng.choice([rng.range(0, 9), rng.range(1, 200), 64 * rng.range(1, 4), 8 * rng.range(1, 30), 24, 40, 7]) for _ in range(cnt)]
            need = sum(x + 63 for x in seq) + 64
            ln = rng.choice([need, need, sum(seq) + mis, max(0, sum(seq) - rng.range(0, 40)), rng.range(0, need)])
            tl.append((mis, ln, seq))
        lines_t = [f"{k} mis={m} len={l} seq={','.join(map(str, q))}" for k, (m, l, q) in enumerate(tl)]
        rc, tout, terr = ctx.run_lines(binp, ["takes"], lines_t)
        rc2, mout, _ = ctx.run_lines(drv, [], [f"{k} takes mis={m} len={l} seq={','.join(map(str, q))}" for k, (m, l, q) in enumerate(tl)])
        n_take = 0
        for k, (mis, ln, seq) in enumerate(tl):
            a = tout[k].split(" ", 1)[1] if k < len(tout) and " " in tout[k] else "missing"
            b = mout[k].split(" ", 1)[1] if k < len(mout) and " " in mout[k] else "missing"
            ctx.count_case(("takes", mis % 8 == 0, len(seq), "panic" in a, ln % 64 == 0))
            n_take += 1
            parts = [t for t in a.split() if ":" in t]
            # oracle on the real pointers: every slice inside the window, 64-aligned (absolute), pairwise disjoint, canaries intact
            spans = []
            why = None
            zero_take = None
            for t in parts:
                off, l_, rem = (int(x) for x in t.split(":"))
                if l_ == 0 and off > ln:
                    zero_take = f"zero-length slice at offset {off} of a {ln}-byte window"
                    spans.append((off, l_))
                    continue
                if off < 0 or off + l_ > ln:
                    why = f"slice [{off},{off + l_}) outside the window of {ln} bytes"
                if l_ > 0 and (off + mis) % 64 != 0:
                    why = f"slice at offset {off} of a window at misalignment {mis} is not 64-byte aligned"
                for (o2, l2) in spans:
                    if l_ > 0 and l2 > 0 and off < o2 + l2 and o2 < off + l_:
                        why = f"slices [{o2},{o2 + l2}) and [{off},{off + l_}) overlap"
                spans.append((off, l_))
                if off + l_ + rem > ln:
                    why = f"remainder of {rem} bytes after [{off},{off + l_}) reaches past the window"
            if "canary=0" in a:
                why = "bytes outside the window were modified"
            if zero_take:
                # zero-length take on a window shorter than its alignment offset: recorded finding
                ctx.violation("take_slice_aligned computes ptr.add(aligned_offset) past the window for a zero-length take",
                              {"key": KEY_ZERO_TAKE, "takes": lines_t[k], "implementation": a, "why": zero_take}, True, key=KEY_ZERO_TAKE)
            if why:
                oracle_fail.append({"takes": lines_t[k], "implementation": a, "why": why})
            if a.replace(" canary=1", "").replace(" canary=0", "") != b:
                disagree.append({"takes": lines_t[k], "implementation": a, "model": b})
        ctx.cov["take_sequences"] = n_take
        # ---- HAL operations from garbage-filled buffers with guard tails (the C07/C11 programs), as a footprint validator
        from . import halgen, halrun
        hcases = [halgen.program(rng) for _ in range(800 if quick else 20000)]
        # the families whose kernels index through raw pointers with several size parameters (prepared operand longer or
        # shorter than its source, result shorter than the product, limb offsets) get their own share
        for fam in ("cnv", "cnv_pair", "cnv_const", "vmp", "vmp_offset", "vmp_small", "svp_dft", "dft_select"):
            hcases += [halgen.program(rng, fam) for _ in range(200 if quick else 3000)]
        bad = halrun.run_cases(ctx, binp, drv, hcases)
        for (k, d, a, b) in bad[:5]:
            line, meta = hcases[k]
            found, w = halrun.classify(ctx, binp, line, a, b)
            w["difference"] = d
            (oracle_fail if found else disagree).append({"hal": w})

    # ---- thorough: the profile downstream users get (`rel`: release, debug assertions OFF).  The conditions the library
    #      checks only under #[cfg(debug_assertions)] (tools/list_debug_asserts.py) are replayed with violating arguments:
    #      (a) canary frames of result and scratch, (b) AddressSanitizer on every call that returns
    if not quick and binp is not None:
        relp = ctx.build_harness("rel")
        if relp is None:
            broken.append("harness build failed (rel): " + getattr(ctx, "build_error", "")[-300:])
        else:
            rl = rel_sweep_lines()
            rout = run_resilient(ctx, relp, rl)
            nb = 0
            for l, a in zip(rl, rout):
                ctx.count_case(("mism-rel", l.split()[2], l.split()[3], a.split()[1].split(":")[0]))
                if "broken" in a or "crashed" in a:
                    nb += 1
                    ctx.oracle_failures += 1
                    if len(oracle_fail) < 20:
                        oracle_fail.append({"case": l, "impl": a, "profile": "rel (debug assertions off)",
                                            "why": "memory outside the result / scratch window modified by a safe call (or process crashed)",
                                            "rerun": f"printf '{l}\\n' | harness/target/rel/pvh rel"})
            ctx.cov["mismatch_cases_rel"] = {"cases": len(rl), "answers": len(rout), "broken": nb,
                                             "returned_ok": sum(1 for a in rout if a.split()[1] == "ok")}
            env = dict(common.ENV, RUSTFLAGS="-Zsanitizer=address -C target-feature=+avx2,+fma")
            try:
                pb = subprocess.run(["cargo", "build", "--profile", "rel", "--offline", "--target", "x86_64-unknown-linux-gnu", "--target-dir", "target-asan"],
                                    cwd=common.HARNESS, env=env, capture_output=True, text=True, timeout=1500)
                okb = pb.returncode == 0
            except subprocess.TimeoutExpired:
                okb = False
            if okb:
                ab = os.path.join(common.HARNESS, "target-asan", "x86_64-unknown-linux-gnu", "rel", "pvh")
                env2 = dict(common.ENV, ASAN_OPTIONS="detect_leaks=0:abort_on_error=0:alloc_dealloc_mismatch=0")
                import concurrent.futures

                def one(l):
                    pr = subprocess.run([ab, "rel"], input=l + "\n", capture_output=True, text=True, env=env2)
                    m = re.search(r"ERROR: AddressSanitizer: (\S+)", pr.stderr)
                    rw = re.search(r"(READ|WRITE) of size (\d+)", pr.stderr)
                    return l, (m.group(1) + ":" + (rw.group(1) if rw else "?")) if m else None
                todo = [l for l, a in zip(rl, rout) if a.split()[1] == "ok"]
                with concurrent.futures.ThreadPoolExecutor(6) as ex:
                    reps = [(l, k) for l, k in ex.map(one, todo) if k]
                ctx.cov["mismatch_asan_rel"] = {"cases": len(todo), "reports": len(reps)}
                for l, k in reps[:20]:
                    ctx.oracle_failures += 1
                    if len(oracle_fail) < 20:
                        oracle_fail.append({"case": l, "profile": "rel + AddressSanitizer", "why": k,
                                            "rerun": "RUSTFLAGS='-Zsanitizer=address -C target-feature=+avx2,+fma' cargo build --profile rel --target x86_64-unknown-linux-gnu --target-dir target-asan; printf '<case>\\n' | target-asan/x86_64-unknown-linux-gnu/rel/pvh rel"})
                if reps:
                    ctx.oracle_failures += len(reps) - min(len(reps), 20)
            else:
                ctx.cov["mismatch_asan_rel"] = {"build": "failed"}

    # ---- documented UB: Vec<u8> freed with align 1 over a 64-aligned allocation
    try:
        src = open(os.path.join(common.REPO, "poulpy-hal", "src", "lib.rs")).read()
        m = re.search(r"fn alloc_aligned_custom_u8\(.*?\n}\n", src, re.S)
        body = m.group(0) if m else ""
        if "Layout::from_size_align(size, align)" in body and "Vec::from_raw_parts(ptr, size, size)" in body:
            ctx.violation("alloc_aligned_custom_u8 hands a custom-aligned allocation to Vec<u8> (dealloc with align 1)",
                          {"key": KEY_DEALLOC, "site": "poulpy-hal/src/lib.rs:alloc_aligned_custom_u8",
                           "evidence": "std::alloc::alloc(Layout::from_size_align(size, align)) followed by Vec::from_raw_parts(ptr, size, size); "
                                       "Vec<u8>::drop deallocates with Layout { size, align: 1 } (GlobalAlloc contract violated); size = 0 additionally calls alloc with a zero-sized layout"},
                          True, key=KEY_DEALLOC)
    except OSError:
        pass

    if oracle_fail:
        ctx.violation("memory-safety oracle failed on the implementation's own output", {"failures": oracle_fail[:20], "rerun": "./check C17 --tier quick"}, True)
    if disagree:
        ctx.violation("layout model and implementation disagree (C17 correspondence)", {"disagreements": disagree[:20]}, False)
    elif broken:
        ctx.log("broken:", *broken[:6])
        ctx.violation("C17 obligation or machinery no longer checks", {"broken": broken[:20]}, False)
    return ctx.finish(rule="history case = (constructor, step kinds, length, ends in panic); every state after every step is compared; "
                           "mat case = shape; canary case = (back end, n, cols, size, op); non-trivial = history with at least one step")
