"""C14 — blind rotation evaluates the lookup table at the encrypted index.

Gate 1 (proof): lake build Poulpy.Props.C14.
Gate 2 (correspondence, `pvh lut` vs `pdriver lut`):
  set       LookupTable::alloc + set over (N, ext, radix, precision, k, table length incl. non-dividing / empty /
            too long, value classes): every limb of every polynomial, drift, panic class.
  rot       clear rotations (hook) incl. compositions, k < -2N*ext, |k| near the i64 limits.
  rotall    exhaustive: every t in [0, 2N*ext) in both directions for every table length dividing the domain,
            hash of all limbs (quick N <= 16, thorough N <= 64), ext in {1,2,4,8}.
  modswitch mod_switch_2n on explicit LWE limbs, both branches, both directions.
  xai       set_xai_plus_y (crate-private: model vs the defining formula only; the real code is exercised through
            the block-binary blind rotations below).
  blind     real key generation + blind_rotation_execute (standard, block-binary, extended; key distributions
            block / fixed weight / probability / zero; both directions; rank 1, 2; 4 back ends): the decrypted
            plaintext must equal, on every limb of the table, polynomial 0 of the model's clear rotation at the
            model's mod-switched index.
Property oracle (Python big integers): the decrypted constant coefficient is the table entry selected by the
message (Left: f[m]; Right: f[0] for m = 0, else -f[len-m]) scaled to the top limb; the clear rotation's
coefficient 0 is +-f[((t+drift)/step) mod len] with the negacyclic sign.
"""
from . import common

BES = ["fft64ref", "ntt120ref", "fft64avx", "ntt120avx"]


def kv(tokens):
    d = {}
    for t in tokens:
        if "=" in t:
            k, v = t.split("=", 1)
            d[k] = v
    return d


def ints(s):
    return [] if s in ("-", "") else [int(x) for x in s.split(",")]


def w64(x):
    return (x + (1 << 63)) % (1 << 64) - (1 << 63)


def digit(b, x):
    return (x + (1 << (b - 1))) % (1 << b) - (1 << (b - 1))


def divisors_le(domain, n):
    return [d for d in range(1, n + 1) if domain % d == 0]


def clear_entry(f, n, ext, t, drift, step):
    """+-f[...] selected at coefficient 0 of X^{-t} * table (Left convention), sign on wrap"""
    dom = n * ext
    u = (t + drift) % (2 * dom)
    sgn = 1 if u < dom else -1
    return sgn * f[((u % dom) // step) % len(f)]


def gen_f(r, flen, k, cls):
    lim = 1 << max(k - 1, 0)
    if cls == 0:
        return [r.range(-lim, lim - 1) if lim > 0 else 0 for _ in range(flen)]
    if cls == 1:
        return [lim - 1 if i % 2 else -lim for i in range(flen)]
    if cls == 2:
        return [i - flen // 2 for i in range(flen)]
    if cls == 3:
        return [0] * flen
    return [r.range(-(1 << 40), 1 << 40) for _ in range(flen)]


def run(ctx):
    rng = ctx.rng
    quick = ctx.tier == "quick"
    ctx.trusted += [
        "Model/Lut.lean as the reading of lookup_table_set / lookup_table_rotate / mod_switch_2n / set_xai_plus_y and of znx_rotate, "
        "znx_switch_ring, vec_znx_normalize_assign (tied through the verif-hooks accessors on four back ends)",
        "external product / key generation / decryption of the blind path: real code on both sides of the comparison; the accumulator "
        "contract (C04) is an assumption of the blind theorem",
    ]
    ctx.assumptions += ["blind path: acc <- acc + (X^{a_i}-1) * (acc [*] BRK_i) multiplies the accumulator's phase by X^{a_i s_i} up to noise below the compared limbs (C04)"]
    broken = []
    witness = None

    ok, failures = ctx.proof_gate(["Poulpy.Props.C14", "Poulpy.Props.C14Exec"])
    broken += failures
    binp = ctx.build_harness()
    drv = ctx.driver()
    if binp is None or drv is None:
        ctx.violation("C14 machinery does not build", {"broken": broken + [getattr(ctx, "build_error", "")[-400:], getattr(ctx, "driver_error", "")[-400:]]}, False)
        return ctx.finish(rule="n/a")

    def both(lines, timeout=3000):
        rc, outl, err = ctx.run_lines(binp, ["lut"], lines, timeout=timeout)
        ml = [ln.replace(" ", " lut ", 1) for ln in lines]
        rc2, mout, err2 = ctx.run_lines(drv, [], ml, timeout=timeout)
        if rc != 0 or len(outl) != len(lines):
            broken.append(f"pvh lut failed rc={rc} {len(outl)}/{len(lines)} {err[-300:]}")
        if rc2 != 0 or len(mout) != len(lines):
            broken.append(f"pdriver lut failed rc={rc2} {len(mout)}/{len(lines)} {err2[-300:]}")
        return outl, mout

    def compare(tag, lines, outl, mout, keyf):
        nonlocal witness
        for k, ln in enumerate(lines):
            a = " ".join(outl[k].split()[1:]) if k < len(outl) else "?"
            m = " ".join(mout[k].split()[1:]) if k < len(mout) else "?"
            head = a.split()[0] if a else "?"
            ctx.count_case(keyf(k, head), nontrivial=head == "ok")
            if a != m:
                ctx.disagreements += 1
                if len(broken) < 20:
                    broken.append(f"{tag}: {ln[:200]} implementation={a[:200]} model={m[:200]}")

    # ------------------------------------------------------------------ A. set (+ clear-entry oracle)
    r = rng.fork()
    cases = []
    ns = [1, 2, 4, 8, 16, 32] if quick else [1, 2, 4, 8, 16, 32, 64]
    for n in ns:
        for ext in [1, 2, 4, 8]:
            for b, klut in ([(5, 10), (19, 19), (12, 27)] if quick else [(3, 9), (5, 10), (19, 19), (12, 27), (20, 40), (17, 52)]):
                dom = n * ext
                lens = divisors_le(dom, n)
                extra = [0, n + 1, 3, 5, 6] if n >= 4 else [0, n + 1]
                for flen in lens + extra:
                    size = -(-klut // b)
                    k = r.choice([1, b - 1, b, b + 1, klut, r.range(1, klut)])
                    if r.chance(1, 25):
                        k = r.choice([0, klut + b + 1])
                    cases.append((n, ext, b, klut, max(k, 0), gen_f(r, flen, min(k, 40) if r.chance(9, 10) else 62, r.below(5))))
    for e in [0, 3, 6]:
        cases.append((8, e, 5, 10, 3, [1, 2]))
    if quick:
        cases = [c for i, c in enumerate(cases) if i % 2 == 0 or len(c[5]) in (0, 3)]
    lines = [f"{i} set be={BES[i % 4]} n={n} ext={ext} b={b} klut={klut} k={k} f={','.join(map(str, f)) or '-'}" for i, (n, ext, b, klut, k, f) in enumerate(cases)]
    outl, mout = both(lines)
    compare("set", lines, outl, mout, lambda k, head: ("set", BES[k % 4], cases[k][0], cases[k][1], cases[k][2], min(len(cases[k][5]), 9), head))
    n_oracle = 0
    for i, (n, ext, b, klut, k, f) in enumerate(cases):
        it = outl[i].split() if i < len(outl) else []
        if len(it) > 1 and it[1] == "ok" and f and (n * ext) % len(f) == 0:
            d = kv(it)
            limbs = -(-k // b)
            if limbs != 1:
                continue
            scale = (1 << (b - k % b)) if k % b else 1
            if any(abs(x * scale) >= (1 << (b - 1)) for x in f):
                continue
            drift = int(d["drift"])
            step = n * ext // len(f)
            p0 = [ints(x) for x in d["data"].split(";")[0].split("|")]
            # coefficient 0 of the table as set (t = 0): +f[0] (drift < step); whole polynomial 0: entries at t = -x*ext
            want0 = clear_entry(f, n, ext, 0, drift, step) * scale
            n_oracle += 1
            if p0[0][0] != want0 or drift != step // 2:
                ctx.oracle_failures += 1
                witness = witness or {"kind": "set", "line": lines[i], "implementation": outl[i][:300], "want_coeff0": want0}
    ctx.cov["set_cases"] = len(cases)
    ctx.cov["set_oracle_checked"] = n_oracle
    ctx.samples.append({"request": lines[3][:160], "implementation": outl[3][:200] if len(outl) > 3 else None})

    # ------------------------------------------------------------------ B. rot: compositions and extreme k
    r = rng.fork()
    rcases = []
    big = [-(1 << 63), (1 << 63) - 1, -(1 << 62), (1 << 62) + 5, -(1 << 63) + 7]
    for _ in range(120 if quick else 1500):
        n = r.choice([2, 4, 8, 16])
        ext = r.choice([1, 2, 4, 8])
        b, klut = r.choice([(5, 10), (19, 19), (12, 27)])
        dom = n * ext
        flen = r.choice(divisors_le(dom, n))
        k = r.range(1, min(klut, 30))
        f = gen_f(r, flen, k, r.below(3))
        cls = r.below(4)
        if cls == 0:
            rots = [r.range(-2 * dom, 2 * dom)]
        elif cls == 1:
            rots = [r.range(-2 * dom, 2 * dom) for _ in range(r.range(2, 4))]
        elif cls == 2:
            rots = [r.range(-40 * dom, -2 * dom - 1)]          # k < -2N*ext
        else:
            rots = [r.choice(big)]
        rcases.append((n, ext, b, klut, k, f, rots))
    lines = [f"{i} rot be={BES[i % 4]} n={n} ext={ext} b={b} klut={klut} k={k} f={','.join(map(str, f))} rot={','.join(map(str, rots))}"
             for i, (n, ext, b, klut, k, f, rots) in enumerate(rcases)]
    outl, mout = both(lines)
    compare("rot", lines, outl, mout, lambda k, head: ("rot", BES[k % 4], rcases[k][0], rcases[k][1], len(rcases[k][6]),
                                                         "far" if abs(rcases[k][6][0]) > 4 * rcases[k][0] * rcases[k][1] else "near", head))
    # oracle: rotation by k is rotation by k mod 2N*ext; coefficient 0 = clear_entry
    for i, (n, ext, b, klut, k, f, rots) in enumerate(rcases):
        it = outl[i].split() if i < len(outl) else []
        if len(it) > 1 and it[1] == "ok" and -(-k // b) == 1:
            scale = (1 << (b - k % b)) if k % b else 1
            if any(abs(x * scale) >= (1 << (b - 1)) for x in f):
                continue
            d = kv(it)
            step = n * ext // len(f)
            t = (-sum(rots)) % (2 * n * ext)
            want0 = clear_entry(f, n, ext, t, int(d["drift"]), step) * scale
            got0 = ints(d["data"].split(";")[0].split("|")[0])[0]
            if got0 != want0:
                ctx.oracle_failures += 1
                witness = witness or {"kind": "rot", "line": lines[i], "implementation": outl[i][:300], "want_coeff0": want0}
    ctx.cov["rot_cases"] = len(rcases)

    # ------------------------------------------------------------------ C. rotall: exhaustive clear path (hashes)
    r = rng.fork()
    acases = []
    for n in ([2, 4, 8, 16] if quick else [2, 4, 8, 16, 32, 64]):
        for ext in [1, 2, 4, 8]:
            dom = n * ext
            for flen in divisors_le(dom, n):
                b, klut = r.choice([(5, 10), (19, 19), (12, 27), (20, 40)])
                k = r.range(1, min(klut, 24))
                for sign in (1, -1):
                    acases.append((n, ext, b, klut, k, gen_f(r, flen, k, r.below(3)), sign))
    lines = [f"{i} rotall be={BES[i % 4]} n={n} ext={ext} b={b} klut={klut} k={k} f={','.join(map(str, f))} lo=0 hi={2 * n * ext} sign={sign}"
             for i, (n, ext, b, klut, k, f, sign) in enumerate(acases)]
    outl, mout = both(lines)
    nrot = 0
    for i, c in enumerate(acases):
        a = outl[i].split()[1:] if i < len(outl) else ["?"]
        m = mout[i].split()[1:] if i < len(mout) else ["?"]
        ha = kv(a).get("h", "").split(",")
        hm = kv(m).get("h", "").split(",")
        nrot += len(ha)
        ctx.evaluations += len(ha) - 1
        ctx.count_case(("rotall", BES[i % 4], c[0], c[1], len(c[5]), c[6]))
        if a != m or len(ha) != 2 * c[0] * c[1]:
            ctx.disagreements += 1
            bad = next((t for t, (x, y) in enumerate(zip(ha, hm)) if x != y), None)
            if len(broken) < 20:
                broken.append(f"rotall: {lines[i][:160]} first differing t={bad}")
    ctx.cov["rotall_tables"] = len(acases)
    ctx.cov["rotall_rotations"] = nrot
    ctx.cov["exhaustive"] = True

    # ------------------------------------------------------------------ D. mod_switch_2n
    r = rng.fork()
    mcases = []
    for _ in range(600 if quick else 20000):
        m = r.range(1, 13)
        n = 1 << m
        if r.chance(1, 12):
            n = r.range(1, 5000)
        b = r.range(1, 24) if r.chance(2, 3) else r.range(m - 2 if m > 2 else 1, m + 3)
        nl = r.range(0, 5)
        nlimbs = r.range(1, 5)
        cls = r.below(4)
        rows = []
        for _j in range(nlimbs):
            if cls == 0:
                rows.append([r.range(-(1 << (b - 1)), (1 << (b - 1)) - 1) for _ in range(nl + 1)])
            elif cls == 1:
                rows.append([r.choice([-(1 << (b - 1)), (1 << (b - 1)) - 1, 0, 1, -1]) for _ in range(nl + 1)])
            elif cls == 2:
                rows.append([r.range(-(1 << 62), 1 << 62) for _ in range(nl + 1)])
            else:
                rows.append([r.choice([-(1 << 63), (1 << 63) - 1, r.range(-(1 << (b - 1)), (1 << (b - 1)) - 1)]) for _ in range(nl + 1)])
        mcases.append((n, b, r.below(2), rows, cls))
    lines = [f"{i} modswitch n={n} b={b} left={left} limbs={'|'.join(','.join(map(str, row)) for row in rows)}" for i, (n, b, left, rows, cls) in enumerate(mcases)]
    outl, mout = both(lines)

    def log2n_of(n):
        return (n - 1).bit_length() + 1
    compare("modswitch", lines, outl, mout, lambda k, head: ("ms", "b>bits" if mcases[k][1] > log2n_of(mcases[k][0]) - 1 else "b<=bits", mcases[k][2],
                                                               min(len(mcases[k][3]), 3), mcases[k][4], mcases[k][1] % 4, head))
    # property oracle: the result is the torus value scaled to n (= 2*domain), to within rounding
    n_b1 = n_b2 = 0
    for i, (n, b, left, rows, cls) in enumerate(mcases):
        it = outl[i].split() if i < len(outl) else []
        if len(it) < 2 or it[1] != "ok" or cls >= 2 or n & (n - 1):
            continue
        res = ints(it[2])
        m = n.bit_length() - 1
        sgn = -1 if left else 1
        for j, y in enumerate(res):
            if b > m:
                n_b1 += 1
                x0 = sgn * rows[0][j]
                want = (x0 + (1 << (b - m - 1))) >> (b - m)          # round-half-up of x0 * n / 2^b
                if y != want:
                    ctx.oracle_failures += 1
                    witness = witness or {"kind": "modswitch", "line": lines[i], "implementation": outl[i], "j": j, "want": want}
            else:
                n_b2 += 1
                tau_num = sum(sgn * rows[q][j] << (b * (len(rows) - 1 - q)) for q in range(len(rows)))     # tau * 2^(b*len)
                exact = tau_num * n / (1 << (b * len(rows)))
                dist = abs(((y - exact) + n / 2) % n - n / 2)
                if dist > 1.0:
                    ctx.oracle_failures += 1
                    witness = witness or {"kind": "modswitch", "line": lines[i], "implementation": outl[i], "coefficient": j, "exact_tau_times_n": exact, "got": y}
    ctx.cov["modswitch_cases"] = len(mcases)
    ctx.cov["modswitch_values_branch_b_gt_log2n"] = n_b1
    ctx.cov["modswitch_values_branch_b_le_log2n"] = n_b2

    # ------------------------------------------------------------------ E. set_xai_plus_y (model vs formula)
    r = rng.fork()
    xl = []
    xe = []
    for i in range(200 if quick else 3000):
        n = 1 << r.range(0, 7)
        ai = r.range(0, 2 * n - 1)
        y = r.choice([0, -1, 1, r.range(-(1 << 40), 1 << 40)])
        xl.append(f"{i} lut xai n={n} ai={ai} y={y}")
        pol = [0] * n
        if ai < n:
            pol[ai] = 1
        else:
            pol[ai - n] = -1
        pol[0] += y
        xe.append("ok " + ",".join(map(str, pol)))
    rc, xo, _ = ctx.run_lines(drv, [], xl)
    for i in range(len(xl)):
        got = " ".join(xo[i].split()[1:]) if i < len(xo) else "?"
        ctx.count_case(("xai", min(len(xe[i]) // 40, 5)))
        if got != xe[i]:
            ctx.disagreements += 1
            if len(broken) < 20:
                broken.append(f"xai: {xl[i]} model={got[:100]} formula={xe[i][:100]}")

    # ------------------------------------------------------------------ F. blind path
    r = rng.fork()
    bcases = []
    confs = []
    for be in BES:
        for (ng, nl, block, ext, dist) in [(32, 6, 1, 1, "block"), (32, 8, 4, 1, "block"), (16, 6, 3, 2, "block"), (32, 6, 2, 4, "block"), (16, 6, 2, 8, "block"),
                                           (32, 6, 1, 1, "hw"), (32, 6, 1, 1, "prob"), (32, 6, 1, 1, "zero"), (64, 16, 1, 1, "block"), (64, 16, 8, 2, "block"), (64, 8, 4, 8, "block"), (256, 16, 4, 1, "block")]:
            confs.append((be, ng, nl, block, ext, dist))
    for ci, (be, ng, nl, block, ext, dist) in enumerate(confs):
        for p in range(1, 6):
            if (1 << p) > ng:      # table length must not exceed N
                continue
            msgs = list(range(1 << p)) if (not quick or p <= 2) else [0, 1, (1 << p) - 1, r.below(1 << p)]
            if quick and ci % 4 != p % 4 and p > 2:
                continue
            for msg in msgs:
                for left in (1, 0):
                    if quick and left == 0 and msg not in (0, 1, (1 << p) - 1):
                        continue
                    rank = 2 if (msg + p) % 5 == 0 else 1
                    bcases.append(dict(be=be, nglwe=ng, nlwe=nl, block=block, ext=ext, dist=dist, p=p, msg=msg, left=left, seed=r.range(1, 200), rank=rank, lweb=19))
    # a few with a small LWE radix (second branch of mod_switch_2n) and one with a 2-limb table
    for p in (1, 2):
        for msg in range(1 << p):
            bcases.append(dict(be="fft64ref", nglwe=32, nlwe=6, block=1, ext=1, dist="block", p=p, msg=msg, left=1, seed=7, rank=1, lweb=4, klwe=12))
    for msg in range(4):
        bcases.append(dict(be="ntt120ref", nglwe=32, nlwe=6, block=1, ext=1, dist="block", p=2, msg=msg, left=1, seed=9, rank=1, lweb=17, b=17, klut=34, kres=51,
                           kbrk=68, rows=3, kset=20))
    lines = [f"{i} blind " + " ".join(f"{k}={v}" for k, v in c.items()) for i, c in enumerate(bcases)]
    rc, outl, err = ctx.run_lines(binp, ["lut"], lines, timeout=3000)
    if rc != 0 or len(outl) != len(lines):
        broken.append(f"pvh lut blind failed rc={rc} {err[-300:]}")
    else:
        ml = []
        for i, c in enumerate(bcases):
            d = kv(outl[i].split())
            b = c.get("b", 19)
            ml.append(f"{i} lut blindref n={c['nglwe']} ext={c['ext']} b={b} klut={c.get('klut', b)} k={d.get('kset', 0)} f={d.get('f', '-')} "
                      f"lweb={c['lweb']} left={c['left']} block={c['block']} limbs={d.get('lwe', '')} sk={d.get('sk', '-')}")
        rc2, mout, _ = ctx.run_lines(drv, [], ml)
        nb = 0
        n_entry = 0
        for i, c in enumerate(bcases):
            it = outl[i].split()
            mt = mout[i].split() if i < len(mout) else []
            ctx.count_case(("blind", c["be"], c["nglwe"], c["block"] > 1, c["ext"], c["dist"], c["p"], c["left"], c["rank"], c["lweb"]))
            if len(it) < 2 or it[1] != "ok" or len(mt) < 2 or mt[1] != "ok":
                ctx.disagreements += 1
                if len(broken) < 20:
                    broken.append(f"blind: {lines[i][:200]} -> {outl[i][:80]} / {(mout[i] if i < len(mout) else '?')[:80]}")
                continue
            d = kv(it)
            md = kv(mt)
            pt = d["pt"].split("|")
            want = md["data"].split("|")
            clear = md["clear"].split("|")
            nlimbs_cmp = len(want)            # every limb of the table (the limbs above the noise floor)
            nb += 1
            if pt[:nlimbs_cmp] != want:
                ctx.disagreements += 1
                if len(broken) < 20:
                    broken.append(f"blind: {lines[i][:200]} decrypted limb(s) differ from the model's accumulator loop (idx={md.get('idx')})")
            if pt[:nlimbs_cmp] != clear:
                # the property: the blind result decrypts to the table rotated by the mod-switched index
                if True:
                    ctx.oracle_failures += 1
                    witness = witness or {"kind": "blind-vs-clear", "line": lines[i], "idx": md.get("idx"), "decrypted": pt[0][:200], "clear": clear[0][:200]}
            # property oracle
            f = ints(d["f"])
            b = c.get("b", 19)
            kset = int(d["kset"])
            scale = (1 << (b - kset % b)) if kset % b else 1
            m = c["msg"]
            if c["left"]:
                entry = f[m]
            else:
                entry = f[0] if m == 0 else -f[len(f) - m]
            got0 = ints(pt[0])[0]
            if -(-kset // b) == 1:
                want0 = digit(b, entry * scale)
            else:
                want0 = None
            sk_w = sum(abs(x) for x in ints(d["sk"]))
            step = c["nglwe"] * c["ext"] // len(f)
            if step / 2 <= (1 + sk_w) / 2 + 1:
                want0 = None          # table cells narrower than the worst-case mod-switch rounding: entry not determined
            else:
                n_entry += 1
            if want0 is not None and got0 != want0:
                ctx.oracle_failures += 1
                witness = witness or {"kind": "blind", "line": lines[i], "decrypted_coeff0": got0, "want": want0}
        ctx.cov["blind_rotations"] = nb
        ctx.cov["blind_entry_oracle_checked"] = n_entry
        # ---- measured noise of the executed blind rotation vs the proved worst-case bound (C14.blind_rotation_noise, NoiseB.blindBound)
        import math
        nl_ = []
        meta_n = []
        for i, c in enumerate(bcases):
            it = outl[i].split()
            mt = mout[i].split() if i < len(mout) else []
            if len(it) < 2 or it[1] != "ok" or len(mt) < 2 or mt[1] != "ok":
                continue
            d = kv(it)
            md = kv(mt)
            b = c.get("b", 19)
            pt = [ints(x) for x in d["pt"].split("|")]
            want = [ints(x) for x in md["data"].split("|")]
            sz = len(pt)
            mod = 1 << (b * sz)
            worst = 0
            for j in range(len(pt[0])):
                vi = sum(pt[l][j] << (b * (sz - 1 - l)) for l in range(sz))
                vm = sum(want[l][j] << (b * (sz - 1 - l)) for l in range(len(want)))
                e = (vi - vm) % mod
                if e > mod // 2:
                    e -= mod
                worst = max(worst, abs(e))
            meas = worst << (64 - b * sz) if b * sz <= 64 else worst >> (b * sz - 64)
            kbrk = c.get("kbrk", 3 * b)
            efresh = 20 << max(0, 64 - kbrk)
            nl_.append(f"{len(nl_)} noise blind n={c['nglwe']} rank={c['rank']} dnum={c.get('rows', 2)} b={b} k={c.get('kres', 2 * b)} hw={c['nglwe']} "
                       f"nlwe={c['nlwe']} blocks={max(1, c['nlwe'] // c['block'])} e={efresh} logdelta=0")
            meta_n.append((i, meas))
        rc4, nout, _ = ctx.run_lines(drv, [], nl_)
        worst_ratio = None
        n_cmp = 0
        max_meas = 0
        for j, (i, meas) in enumerate(meta_n):
            t = kv(nout[j].split()) if j < len(nout) else {}
            if "bound" not in t:
                broken.append(f"noise bound not evaluated: {nl_[j]}")
                continue
            bound = int(t["bound"])
            n_cmp += 1
            max_meas = max(max_meas, meas)
            if meas > bound:
                ctx.oracle_failures += 1
                witness = witness or {"kind": "blind-noise", "line": lines[i], "measured_units_2^-64": meas, "proved_bound": bound}
            ratio = math.log2(bound) - math.log2(max(meas, 1))
            worst_ratio = ratio if worst_ratio is None else min(worst_ratio, ratio)
        ctx.cov["blind_noise"] = {"cases_compared": n_cmp, "units": "2^-64 of the torus, max over coefficients",
                                  "max_measured_log2": round(math.log2(max(max_meas, 1)) - 64, 2),
                                  "smallest_margin_bits (log2 bound - log2 measured)": None if worst_ratio is None else round(worst_ratio, 2),
                                  "bound": "NoiseB.blindBound + one normalisation unit per product (pdriver noise blind), fresh key error 20 units of 2^-k_brk"}
        ctx.samples.append({"request": lines[0], "implementation": outl[0][:200], "model": mout[0][:200] if mout else None})

    # ------------------------------------------------------------------ G. blind rotation on CIPHERTEXTS (executed model Core.Blind.execute)
    # real key generation, the key read back from its serialisation; the output accumulator compared limb for limb with the Lean model of the three loops
    r = rng.fork()
    ccases = []
    shapes = [  # (N, n_lwe, block, ext, dist)
        (8, 4, 1, 1, "block"), (8, 4, 1, 1, "hw"), (8, 4, 1, 1, "prob"), (8, 3, 1, 1, "zero"),
        (8, 4, 2, 1, "block"), (16, 8, 4, 1, "block"), (16, 8, 2, 1, "block"),
        (8, 4, 1, 2, "block"), (8, 4, 2, 2, "block"), (16, 8, 4, 2, "block"), (8, 4, 2, 4, "block"), (16, 8, 4, 4, "block"), (16, 4, 1, 4, "block"),
    ]
    radices = [dict(b=10, klwe=12, kbrk=30, rows=2, klut=10, kres=20), dict(b=12, klwe=14, kbrk=36, rows=2, klut=24, kres=36, kset=14),
               dict(b=7, klwe=9, kbrk=28, rows=3, klut=14, kres=21, kset=9)]
    for si, (ng, nl, block, ext, dist) in enumerate(shapes):
        for bi, be in enumerate(BES):
            for left in (1, 0):
                for ri, rad in enumerate(radices):
                    if quick and (si + bi + ri + left) % 3 != 0 and not (ri == 0 and bi < 2):
                        continue
                    p = r.choice([1, 2, 3]) if ng >= 8 else 1
                    c = dict(be=be, nglwe=ng, nlwe=nl, block=block, ext=ext, dist=dist, p=p, msg=r.below(1 << p), left=left, seed=r.range(1, 200),
                             rank=2 if (si + ri + bi) % 4 == 3 else 1, lweb=r.choice([rad["b"], 3, 5]) if ri == 0 else rad["b"])
                    c.update(rad)
                    ccases.append(c)
    # radix of `res` different from the key's (the block-binary loops do not look: modelled as is), one extra limb in res, one limb less
    for be in ("fft64ref", "ntt120avx"):
        for (ng, nl, block, ext) in [(8, 4, 1, 1), (8, 4, 2, 1), (8, 4, 2, 2)]:
            ccases.append(dict(be=be, nglwe=ng, nlwe=nl, block=block, ext=ext, dist="block", p=2, msg=1, left=1, seed=11, rank=1, lweb=10, b=10, klwe=12, kbrk=30, rows=2,
                               klut=10, kres=24, resb=8))
            ccases.append(dict(be=be, nglwe=ng, nlwe=nl, block=block, ext=ext, dist="block", p=2, msg=3, left=0, seed=12, rank=1, lweb=10, b=10, klwe=12, kbrk=30, rows=2,
                               klut=20, kres=40))
            ccases.append(dict(be=be, nglwe=ng, nlwe=nl, block=block, ext=ext, dist="block", p=2, msg=2, left=1, seed=13, rank=1, lweb=10, b=10, klwe=12, kbrk=30, rows=3,
                               klut=10, kres=10))
    # dispatch: extension factor > 1 needs a block key
    ccases.append(dict(be="fft64ref", nglwe=8, nlwe=4, block=1, ext=2, dist="hw", p=1, msg=0, left=1, seed=5, rank=1, lweb=10, b=10, klwe=12, kbrk=30, rows=2, klut=10, kres=20))
    ccases.append(dict(be="fft64ref", nglwe=8, nlwe=4, block=1, ext=1, dist="ternary", p=1, msg=0, left=1, seed=5, rank=1, lweb=10, b=10, klwe=12, kbrk=30, rows=2, klut=10, kres=20))
    lines = [f"{i} blindct " + " ".join(f"{k}={v}" for k, v in c.items()) for i, c in enumerate(ccases)]
    rc, outl, err = ctx.run_lines(binp, ["lut"], lines, timeout=3000)
    if rc != 0 or len(outl) != len(lines):
        broken.append(f"pvh lut blindct failed rc={rc} {err[-300:]}")
    else:
        ml = []
        idx = []
        n_panic = 0
        for i, c in enumerate(ccases):
            it = outl[i].split()
            d = kv(it)
            if len(it) < 2 or it[1] != "ok":
                # a panic before anything is dumped: only the dispatch cases may do that
                n_panic += 1
                ctx.count_case(("blindct", c["be"], "panic", c["dist"], c["ext"]), nontrivial=False)
                if not (c["dist"] in ("hw", "ternary") and it[1:2] == ["panic:" + ("assert" if c["dist"] == "hw" else "other")]):
                    ctx.disagreements += 1
                    broken.append(f"blindct: {lines[i][:200]} -> {outl[i][:80]}")
                continue
            S, = [d["res"].split(":")[0].split("x")[1]]
            big = 1 if c["be"].startswith("ntt120") else 0
            ml.append(f"{i} lut blindct big={big} n={c['nglwe']} resb={c.get('resb', c['b'])} ress={S} rank={c['rank']} lweb={d['lweb']} left={c['left']} "
                      f"limbs={d['lwe']} lut={d['lut']} dist={d['dist']} block={d['block']} gp={d['gp']} g={d['g']}")
            idx.append(i)
        rc2, mout, err2 = ctx.run_lines(drv, [], ml, timeout=3000)
        if rc2 != 0 or len(mout) != len(ml):
            broken.append(f"pdriver lut blindct failed rc={rc2} {len(mout)}/{len(ml)} {err2[-300:]}")
        n_ct = 0
        for j, i in enumerate(idx):
            c = ccases[i]
            d = kv(outl[i].split())
            m = " ".join(mout[j].split()[1:]) if j < len(mout) else "?"
            path = "ext" if c["ext"] > 1 else ("block" if (d["dist"] == "block" and int(d["block"]) > 1) else "std")
            ctx.count_case(("blindct", c["be"], c["nglwe"], path, c["ext"], int(d["block"]), d["dist"], c["left"], c["rank"], c["b"], c.get("resb", c["b"]) != c["b"],
                            int(d["lweb"]) < c["b"]))
            n_ct += 1
            if d["res"] != m:
                ctx.disagreements += 1
                if len(broken) < 20:
                    broken.append(f"blindct: {lines[i][:220]} output accumulator differs: implementation={d['res'][:120]} model={m[:120]}")
        # the dispatch panics, model side (no key needed to decide)
        dl = []
        for i, c in enumerate(ccases):
            if c["dist"] in ("hw", "ternary") and (c["ext"] > 1 or c["dist"] == "ternary"):
                dl.append((i, f"{i} lut blindct big=0 n=8 resb=10 ress=2 rank=1 lweb=10 left=1 limbs=0,0 lut={'0,0,0,0,0,0,0,0;' * (c['ext'] - 1)}0,0,0,0,0,0,0,0 "
                              f"dist={'binary' if c['dist'] == 'hw' else 'other'} block=1 gp=10,1,1,1,1 g=" + ",".join(["0"] * (1 * 2 * 2 * 1 * 8))))
        if dl:
            rc3, dout, _ = ctx.run_lines(drv, [], [x[1] for x in dl])
            for j, (i, _) in enumerate(dl):
                a = " ".join(outl[i].split()[1:])
                m = " ".join(dout[j].split()[1:]) if j < len(dout) else "?"
                if a != m:
                    ctx.disagreements += 1
                    broken.append(f"blindct dispatch: {lines[i][:160]} implementation={a[:60]} model={m[:60]}")
        ctx.cov["blind_ciphertext_level"] = {"accumulators_compared_limb_for_limb": n_ct, "dispatch_panics": n_panic,
                                             "what": "Core.Blind.execute (execute_standard / execute_block_binary / execute_block_binary_extended on Core.GLWE values, "
                                                     "real blind rotation key read back from its serialisation) = raw output accumulator of blind_rotation_execute"}
        if idx:
            ctx.samples.append({"request": lines[idx[0]], "implementation": kv(outl[idx[0]].split())["res"][:200], "model": (mout[0] if mout else "")[:200]})

    if broken or witness:
        ctx.log("broken:", *broken[:6])
        if witness:
            ctx.violation("lookup table / blind rotation returns a wrong entry", {"witness": witness, "broken": broken[:20], "rerun": "./check C14 --tier " + ctx.tier}, True)
        else:
            ctx.violation("C14 obligation or correspondence no longer checks", {"broken": broken[:20]}, False)
    return ctx.finish(rule="set: (back end, N, ext, radix, table length class, outcome); rot: (back end, N, ext, #rotations, near/far k, outcome); rotall: one case "
                           "per (table, direction), each standing for 2*N*ext rotations (counted in evaluations); modswitch: (branch, direction, limbs, value class, "
                           "radix mod 4, outcome); blind: (back end, N, block>1, ext, key distribution, p, direction, rank, LWE radix); non-trivial = outcome ok")
