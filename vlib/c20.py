"""C20 — thread count and scheduling never change results.

Gate 1 (proof): lake build Poulpy.Props.C20 (chunks_partition, interleave_eq_seq, par_outputs, threads_eq_single, …).
Gate 2 (correspondence, `pvh threads` vs `pdriver threads`):
  part   the real execute_bdd_circuit_multi_thread on tiny circuits with recorded (thread, index) requests
         vs Threads.execBdd: spawned threads, per-thread index lists, per-slot action table, panic classes;
         the observed global order of item starts must be accepted by Threads.isInterleaving.
  eval   the 11 compiled u32 circuits, every thread count 1..2*cores, 33, 40, 64, perturbed schedules:
         all raw limbs of all outputs identical to the single-thread run; decrypted word = u32 arithmetic
         = Lean evalFlat.
  mixed  concurrent mixed workloads on one shared Module (4 back ends) vs the same work alone.
  prep   real circuit bootstrapping prepare_custom_multi_thread over (start, count, threads) vs
         Threads.execPrepare; each bit compared with a single-bit single-thread reference.
  sched  synthetic micro-step interleavings through the abstract machine (driver) vs a Python run.
  wordmt the ten FheUint word operations `<op>_multi_thread` with `ScratchOwned::alloc(<op>_multi_thread_tmp_bytes(threads, ..))`
         exactly, thread counts up to 64 (above the 32 / 1 output bits): no panic, raw limbs = 1 thread, word = u32
         arithmetic; the queried byte count = Threads.mtTmpBytes (slot + max(threads*per, pack)).
Property oracle: every slot of the work range written exactly once with its own item's single-thread
result, everything else zeroed, for every admissible request — evaluated on the implementation's output.
"""
import os

from . import common
from . import c13

BES = ["fft64ref", "ntt120ref", "fft64avx", "ntt120avx"]
CORES = os.cpu_count() or 16

KEY_SPLIT = "split_mut:len%64!=0"


def kv(tokens):
    d = {}
    for t in tokens:
        if "=" in t:
            k, v = t.split("=", 1)
            d[k] = v
    return d


def py_partition(items, threads):
    """independent oracle: thread t gets [t*c, min((t+1)*c, items)) with c = ceil(items/threads)"""
    c = -(-items // threads)
    out = []
    t = 0
    while t * c < items and t < threads:
        out.append((t, list(range(t * c, min((t + 1) * c, items)))))
        t += 1
    return out


def toy_micro(i, pc, p):
    if pc == 0:
        return (1000 * i + 7, i + 3)
    return (p[0] + p[1] * pc, p[1] + 1)


def run(ctx):
    rng = ctx.rng
    quick = ctx.tier == "quick"
    ctx.trusted += [
        "Model/Threads.lean as the reading of the two thread::scope loops, chunks_mut/zip/enumerate and split_mut "
        "(tied by recording the real loops' (thread, index) requests and per-slot results)",
        "OS scheduler, std::thread::scope, `unsafe impl Sync for Module`: outside the model; observed under perturbed schedules only",
    ]
    ctx.assumptions += [
        "work items are oblivious of the prior contents of their output slot and scratch window (C11 determinacy, C12 contents-never-matter): "
        "hypothesis `Oblivious` of par_outputs / threads_eq_single; observed, not proved, for the real Cmux / circuit bootstrapping code",
    ]
    broken = []
    witness = None

    ok, failures = ctx.proof_gate(["Poulpy.Props.C20"])
    broken += failures
    binp = ctx.build_harness()
    drv = ctx.driver()
    if binp is None:
        broken.append("harness build failed: " + getattr(ctx, "build_error", "")[-600:])
    if drv is None:
        broken.append("model driver does not build: " + getattr(ctx, "driver_error", "")[-600:])
    if binp is None or drv is None:
        ctx.violation("C20 machinery does not build", {"broken": broken}, False)
        return ctx.finish(rule="n/a")

    known_split = []

    # ------------------------------------------------------------------ A. part
    tcounts = sorted(set(list(range(0, 2 * CORES + 1)) + [33, 40, 64]))
    cases = []
    r = rng.fork()
    item_set = [0, 1, 2, 3, 5, 7, 8, 9, 16, 31, 32, 33, 40, 48] if quick else list(range(0, 49))
    for items in item_set:
        ts = tcounts if (items in (1, 7, 32, 33) or not quick) else [0, 1, 2, 3, items - 1, items, items + 1, 2 * items + 1, 64]
        for th in sorted(set(t for t in ts if t >= 0)):
            cases.append(dict(items=items, outlen=items + r.choice([0, 0, 2, 3]), threads=th, circin=64, scratch="full"))
    for _ in range(30 if quick else 300):   # boundary / inadmissible classes
        items = r.range(0, 40)
        cls = r.below(5)
        c = dict(items=items, outlen=items + 1, threads=r.range(1, 40), circin=64, scratch="full")
        if cls == 0:
            c["outlen"] = max(0, items - 1)
        elif cls == 1:
            c["circin"] = 65
        elif cls == 2:
            c["scratch"] = "short"
        elif cls == 3:
            c["outlen"] = 0
        else:
            c["threads"] = 0
        cases.append(c)
    lines = []
    for k, c in enumerate(cases):
        c["be"] = BES[k % 4]
        c["perturb"] = r.below(5)
        lines.append(f"{k} part be={c['be']} items={c['items']} outlen={c['outlen']} threads={c['threads']} circin={c['circin']} "
                     f"scratch={c['scratch']} perturb={c['perturb']} seed={r.below(1 << 30)}")
    rc, outl, err = ctx.run_lines(binp, ["threads"], lines, timeout=1800)
    if rc != 0 or len(outl) != len(lines):
        broken.append(f"pvh threads part failed rc={rc} lines={len(outl)}/{len(lines)} {err[-300:]}")
    else:
        mlines = []
        for k, c in enumerate(cases):
            d = kv(outl[k].split())
            mlines.append(f"{k} threads part items={c['items']} outlen={c['outlen']} threads={c['threads']} circin={c['circin']} inbits=64 "
                          f"avail={d.get('avail', 0)} per={d.get('per', 0)}")
        rc2, mout, _ = ctx.run_lines(drv, [], mlines)
        sched_lines = []
        sched_meta = []
        hist = {}
        for k, c in enumerate(cases):
            it = outl[k].split()
            mt = mout[k].split() if k < len(mout) else ["?", "?"]
            impl_head = it[1] if len(it) > 1 else "?"
            d = kv(it)
            md = kv(mt)
            if impl_head == "ok":
                impl = ("ok", d.get("started"), d.get("part"), d.get("acts"))
            else:
                impl = (impl_head,)
            if mt[1] == "ok":
                model = ("ok", md.get("started"), md.get("part"), md.get("acts"))
            else:
                model = (mt[1],)
            hist[impl_head] = hist.get(impl_head, 0) + 1
            admissible = c["threads"] >= 1 and c["outlen"] >= max(c["items"], 1) and c["circin"] <= 64 and c["scratch"] == "full"
            ctx.count_case(("part", c["be"], min(c["items"], 3), "div" if c["threads"] and c["items"] % c["threads"] == 0 else "nondiv",
                            "gt" if c["threads"] > c["items"] else "le", impl_head, c["perturb"]), nontrivial=True)
            if impl != model:
                ctx.disagreements += 1
                if len(broken) < 20:
                    broken.append(f"part: {lines[k]} implementation={outl[k][:300]} model={mout[k][:300] if k < len(mout) else '?'}")
            # property oracle on the implementation's own output
            bad = None
            if admissible:
                if impl_head != "ok":
                    bad = f"admissible request fails with {impl_head}"
                else:
                    acts = d["acts"].split(",")
                    want = [None] * c["outlen"]
                    for t, idxs in py_partition(c["items"], c["threads"]):
                        for i in idxs:
                            want[i] = f"{t}.{i}"
                    want = [w if w is not None else "z" for w in want]
                    if acts != want:
                        bad = f"slot table {acts} differs from the partition oracle {want}"
            if bad:
                ctx.oracle_failures += 1
                witness = witness or {"kind": "part", "line": lines[k], "implementation": outl[k], "why": bad}
            if impl_head == "ok" and d.get("sched", "-") != "-":
                sched_lines.append(f"{len(sched_lines)} threads sched base=0 items={c['items']} threads={c['threads']} plen=1 sched={d['sched']}")
                sched_meta.append((k, c["items"]))
            if len(ctx.samples) < 3:
                ctx.samples.append({"request": lines[k], "implementation": outl[k][:200], "model": (mout[k] if k < len(mout) else "?")[:200]})
        ctx.cov["part_cases"] = len(cases)
        ctx.cov["part_outcomes"] = hist
        # the observed global order of item starts is an interleaving the theorem quantifies over
        if sched_lines:
            rc3, sout, _ = ctx.run_lines(drv, [], sched_lines)
            nbad = 0
            reordered = 0
            for j, (k, items) in enumerate(sched_meta):
                exp = "ok " + ",".join(str(1000 * i + 7) for i in range(items))
                got = " ".join(sout[j].split()[1:]) if j < len(sout) else "?"
                sch = kv(outl[k].split())["sched"].split(",")
                if [x.split(".")[1] for x in sch] != [str(i) for i in range(items)]:
                    reordered += 1
                if got != exp:
                    nbad += 1
                    ctx.disagreements += 1
                    if len(broken) < 20:
                        broken.append(f"observed schedule rejected by the model or wrong outputs: {sched_lines[j][:300]} -> {got[:100]}")
            ctx.cov["observed_schedules_checked"] = len(sched_lines)
            ctx.cov["observed_schedules_not_in_index_order"] = reordered

    # ------------------------------------------------------------------ B. synthetic micro-step schedules through the machine
    r = rng.fork()
    slines = []
    sexp = []
    for k in range(200 if quick else 5000):
        items = r.range(1, 12)
        threads = r.range(1, 14)
        base = r.range(0, 5)
        plen = r.range(1, 4)
        queues = [[(t, base + i, pc) for i in idxs for pc in range(plen)] for t, idxs in py_partition(items, threads)]
        corrupt = r.chance(1, 8)
        sched = []
        qs = [list(q) for q in queues]
        while any(qs):
            live = [q for q in qs if q]
            q = r.choice(live)
            sched.append(q.pop(0))
        if corrupt and len(sched) >= 2:
            # swap two steps of the same thread (breaks program order) or drop a step
            same = [(a, b) for a in range(len(sched)) for b in range(a + 1, len(sched)) if sched[a][0] == sched[b][0]]
            if same and r.chance(1, 2):
                a, b = r.choice(same)
                sched[a], sched[b] = sched[b], sched[a]
            else:
                sched.pop(r.below(len(sched)))
            exp = "bad-schedule"
        else:
            outs = []
            for i in range(items):
                p = (-1, -2)
                for pc in range(plen):
                    p = toy_micro(base + i, pc, p)
                outs.append(p[0])
            exp = "ok " + ",".join(str(x) for x in outs)
        slines.append(f"{k} threads sched base={base} items={items} threads={threads} plen={plen} sched=" + ",".join(f"{t}.{i}.{pc}" for t, i, pc in sched))
        sexp.append(exp)
    rc, sout, _ = ctx.run_lines(drv, [], slines)
    for k in range(len(slines)):
        got = " ".join(sout[k].split()[1:]) if k < len(sout) else "?"
        ctx.count_case(("sched", sexp[k].split()[0], min(len(slines[k]) // 64, 6)))
        if got != sexp[k]:
            ctx.disagreements += 1
            if len(broken) < 20:
                broken.append(f"sched: {slines[k][:200]} model={got[:80]} expected={sexp[k][:80]}")
    ctx.cov["synthetic_schedules"] = len(slines)

    # ------------------------------------------------------------------ C. eval: raw bits across thread counts
    r = rng.fork()
    ths = ",".join(str(t) for t in tcounts if t >= 1)
    ereqs = []
    n_in = 2 if quick else 12
    for be in BES:
        for op in c13.OPS:
            pairs = c13.sample_pairs(r, 144 + n_in)[144:]
            pairs[0] = (r.choice(c13.BOUNDARY), r.choice(c13.BOUNDARY))
            for (a, b) in pairs:
                ereqs.append((be, op, a, b, r.below(5), r.below(1 << 30)))
    lines = [f"{k} eval be={be} op={op} a={a} b={b} threads={ths} perturb={p} seed={s}" for k, (be, op, a, b, p, s) in enumerate(ereqs)]
    rc, outl, err = ctx.run_lines(binp, ["threads"], lines, timeout=3000)
    mlines = [f"{k} bdd {op} {a} {b}" for k, (be, op, a, b, p, s) in enumerate(ereqs)]
    rc2, mout, _ = ctx.run_lines(drv, [], mlines)
    if rc != 0 or len(outl) != len(lines):
        broken.append(f"pvh threads eval failed rc={rc} {err[-300:]}")
    else:
        by_input = {}
        for k, (be, op, a, b, p, s) in enumerate(ereqs):
            it = outl[k].split()
            d = kv(it)
            want = c13.spec(op, a, b)
            mv = mout[k].split()[1] if k < len(mout) and len(mout[k].split()) > 1 else "?"
            ctx.evaluations += len(tcounts) - 2      # one homomorphic evaluation per thread count
            ctx.count_case(("eval", be, op, p, a.bit_length() // 8, b.bit_length() // 8))
            if len(it) < 2 or it[1] != "ok" or d.get("diff") != "-" or d.get("badpart") != "-" or d.get("word") != str(want) or mv != str(want):
                ctx.disagreements += 1
                ctx.oracle_failures += 1
                witness = witness or {"kind": "eval", "line": lines[k], "implementation": outl[k], "u32": want, "model": mv}
                if len(broken) < 20:
                    broken.append(f"eval: {lines[k][:120]} -> {outl[k][:160]} (u32 {want}, model {mv})")
        ctx.cov["eval_word_ops"] = len(ereqs)
        ctx.cov["eval_thread_counts"] = [t for t in tcounts if t >= 1]
        ctx.samples.append({"request": lines[0][:160], "implementation": outl[0]})

    # ------------------------------------------------------------------ D. mixed workloads on a shared Module
    r = rng.fork()
    mreq = []
    for be in BES:
        for workers in ([8, 2 * CORES] if quick else [4, 8, 16, 2 * CORES, 3 * CORES]):
            for _ in range(2 if quick else 10):
                mreq.append((be, workers, r.below(1 << 30)))
    lines = [f"{k} mixed be={be} workers={w} seed={s}" for k, (be, w, s) in enumerate(mreq)]
    rc, outl, err = ctx.run_lines(binp, ["threads"], lines, timeout=3000)
    if rc != 0 or len(outl) != len(lines):
        broken.append(f"pvh threads mixed failed rc={rc} {err[-300:]}")
    else:
        for k, (be, w, s) in enumerate(mreq):
            d = kv(outl[k].split())
            ctx.evaluations += w - 1
            ctx.count_case(("mixed", be, w))
            if outl[k].split()[1] != "ok" or d.get("conc") != d.get("alone") or len(d.get("conc", "").split(",")) != w:
                ctx.disagreements += 1
                ctx.oracle_failures += 1
                witness = witness or {"kind": "mixed", "line": lines[k], "implementation": outl[k]}
                if len(broken) < 20:
                    broken.append(f"mixed: {lines[k]} -> {outl[k][:200]}")
        ctx.cov["mixed_runs"] = len(mreq)

    # ------------------------------------------------------------------ E. prepare (real circuit bootstrapping)
    r = rng.fork()
    preq = []
    if quick:
        grid = [("u8", s, c) for s in range(0, 9) for c in range(0, 9 - s)]
        grid += [("u32", 0, 32), ("u32", 5, 20), ("u32", 31, 1), ("u16", 3, 9), ("u32", 30, 3), ("u8", 9, 0)]
        tl = [1, 2, 3, 5, 8, 9, 33]
    else:
        grid = [("u8", s, c) for s in range(0, 10) for c in range(0, 10 - s)]
        grid += [("u16", s, c) for s in range(0, 17, 3) for c in range(0, 17 - s, 2)]
        grid += [("u32", s, c) for s in range(0, 33, 5) for c in range(0, 34 - s, 3)]
        tl = sorted(set(list(range(1, 2 * CORES + 1, 3)) + [2, 33, 40, 64]))
    for gi, (ty, s, c) in enumerate(grid):
        be = "fft64avx" if gi % 3 == 2 else "fft64ref"
        mode = "exact" if gi % 5 == 4 else ("short" if gi % 17 == 16 else "full")
        preq.append((be, ty, s, c, mode, r.below(1 << 32), r.below(5)))
    lines = [f"{k} prep be={be} ty={ty} value={v} start={s} count={c} threads={','.join(map(str, tl))} scratch={mode} perturb={p} seed={k}"
             for k, (be, ty, s, c, mode, v, p) in enumerate(preq)]
    rc, outl, err = ctx.run_lines(binp, ["threads"], lines, timeout=3000)
    if rc != 0 or len(outl) != len(lines):
        broken.append(f"pvh threads prep failed rc={rc} {err[-300:]}")
    else:
        mlines = []
        meta = []
        for k, (be, ty, s, c, mode, v, p) in enumerate(preq):
            d = kv(outl[k].split())
            bits = int(ty[1:])
            for th in tl:
                ent = d.get(f"t{th}", "0:?")
                avail, _, res = ent.partition(":")
                mlines.append(f"{len(mlines)} threads prep bits={bits} start={s} count={c} threads={th} avail={avail} per={d.get('per', 0)}")
                meta.append((k, th, res, bits))
        rc2, mout, _ = ctx.run_lines(drv, [], mlines)
        phist = {}
        for j, (k, th, res, bits) in enumerate(meta):
            be, ty, s, c, mode, v, p = preq[k]
            mt = mout[j].split()[1] if j < len(mout) and len(mout[j].split()) > 1 else "?"
            model = ":".join(mt.split(":")[:3]) if mt.startswith("ok") else mt
            head = res.split(":")[0] + (":" + res.split(":")[1] if res.startswith("panic") else "")
            phist[head] = phist.get(head, 0) + 1
            ctx.count_case(("prep", be, ty, min(s, 2), min(c, 2), "gt" if th > c else "le", mode, head), nontrivial=c > 0)
            if res != model:
                ctx.disagreements += 1
                if len(broken) < 20:
                    broken.append(f"prep: {lines[k][:140]} threads={th} implementation={res} model={model}")
            # property oracle
            if s + c <= bits and mode != "short":
                want = "z" * s + "r" * c + "z" * (bits - s - c)
                if res.startswith("ok"):
                    if res.split(":")[2] != want:
                        ctx.oracle_failures += 1
                        witness = witness or {"kind": "prep", "line": lines[k], "threads": th, "implementation": res, "want": want}
                elif mode == "exact" and res == "panic:scratch":
                    known_split.append({"line": lines[k], "threads": th, "implementation": res})
                else:
                    ctx.oracle_failures += 1
                    witness = witness or {"kind": "prep", "line": lines[k], "threads": th, "implementation": res, "want": "ok:" + want}
        ctx.cov["prep_requests"] = len(preq)
        ctx.cov["prep_runs"] = len(meta)
        ctx.cov["prep_outcomes"] = phist
        ctx.samples.append({"request": lines[1][:200], "implementation": outl[1][:300]})

    # ------------------------------------------------------------------ F. word operations, scratch = the library's own multi-thread query
    r = rng.fork()
    wops = ["add", "sub", "sll", "srl", "sra", "and", "or", "xor", "slt", "sltu"]
    t32 = [1, 2, 3, 5, 8, 16, 31, 32, 33, 40, 64] if quick else sorted(set(list(range(1, 41)) + [48, 63, 64]))
    t1 = [1, 2, 3, 4, 8, 16] if quick else [1, 2, 3, 4, 5, 8, 16, 33, 64]
    wreq = []
    for oi, op in enumerate(wops):
        one = op in ("slt", "sltu")
        reps = 1 if quick else 3
        for rep in range(reps):
            ths = t1 if one else t32
            a, b = c13.sample_pairs(r, 145)[144]
            if rep == 0:
                a, b = r.choice(c13.BOUNDARY), r.choice(c13.BOUNDARY)
            wreq.append(("fft64avx" if (oi + rep) % 2 else "fft64ref", op, a, b, ths))
    lines = [f"{k} wordmt be={be} op={op} a={a} b={b} threads={','.join(map(str, ths))}" for k, (be, op, a, b, ths) in enumerate(wreq)]
    rc, outl, err = ctx.run_lines(binp, ["threads"], lines, timeout=3000)
    if rc != 0 or len(outl) != len(lines):
        broken.append(f"pvh threads wordmt failed rc={rc} {err[-300:]}")
    else:
        mlines = []
        meta = []
        for k, (be, op, a, b, ths) in enumerate(wreq):
            it = outl[k].split()
            d = kv(it)
            want = c13.spec(op, a, b)
            bad = None
            if len(it) < 2 or it[1] != "ok":
                bad = "request failed: " + outl[k][:120]
            elif d.get("word") != str(want):
                bad = f"single-thread word {d.get('word')} is not the u32 result {want}"
            for th in ths:
                ent = d.get(f"t{th}", "0:?")
                nbytes, _, res = ent.partition(":")
                ctx.evaluations += 1
                ctx.count_case(("wordmt", be, op, th, res.split(":")[0]), nontrivial=True)
                if res != "same" and bad is None:
                    bad = (f"{op}_multi_thread with {th} threads and a scratch of exactly {op}_multi_thread_tmp_bytes({th}, ..) = {nbytes} bytes: "
                           + ("panics (" + res + ")" if res.startswith("panic") else "raw limbs differ from the 1-thread result"))
                mlines.append(f"{len(mlines)} threads mtbytes slot={d.get('slot', 0)} per={d.get('per', 0)} pack={d.get('pack', 0)} threads={th}")
                meta.append((k, th, nbytes))
            if bad:
                ctx.oracle_failures += 1
                witness = witness or {"kind": "wordmt", "line": lines[k], "implementation": outl[k][:400], "why": bad}
                if len(broken) < 20:
                    broken.append(f"wordmt: {lines[k][:120]}: {bad}")
        rc2, mout, _ = ctx.run_lines(drv, [], mlines)
        for j, (k, th, nbytes) in enumerate(meta):
            mt = mout[j].split() if j < len(mout) else []
            if len(mt) < 3 or mt[1] != "ok" or mt[2] != nbytes:
                ctx.disagreements += 1
                if len(broken) < 20:
                    broken.append(f"wordmt bytes: {lines[k][:100]} threads={th} library query={nbytes} model={' '.join(mt[1:])} ({mlines[j]})")
        ctx.cov["wordmt_requests"] = len(wreq)
        ctx.cov["wordmt_runs"] = len(meta)
        ctx.samples.append({"request": lines[0][:200], "implementation": outl[0][:300]})

    # ------------------------------------------------------------------ known findings (model agrees with the code; the property does not)
    if known_split:
        ctx.violation("Scratch::split_mut panics inside take_slice_aligned although available() >= n*len when len is not a multiple of 64: "
                      "prepare_custom_multi_thread with the documented threads*fhe_uint_prepare_tmp_bytes scratch fails for threads >= 2 (works for 1)",
                      {"witness": known_split[0], "count": len(known_split), "theorem": "C20.split_mut_counterexample",
                       "rerun": "printf '1 prep be=fft64ref ty=u8 value=165 start=1 count=6 threads=1,2 scratch=exact\\n' | harness/target/release/pvh threads"},
                      True, key=KEY_SPLIT)
    ctx.cov["known_finding_occurrences"] = {KEY_SPLIT: len(known_split)}

    # ------------------------------------------------------------------ verdict
    if broken or witness:
        ctx.log("broken:", *broken[:6])
        if witness:
            ctx.violation("thread count / schedule changes a result, or a work item is skipped / duplicated", {"witness": witness, "broken": broken[:20],
                          "rerun": "./check C20 --tier " + ctx.tier}, True)
        else:
            ctx.violation("C20 obligation or correspondence no longer checks", {"broken": broken[:20]}, False)
    return ctx.finish(rule="part: (back end, items class, dividing?, threads>items?, outcome, perturbation); eval: (back end, op, perturbation, "
                           "byte-lengths of a and b) — each eval case stands for one homomorphic evaluation per thread count (35), counted in "
                           "`evaluations`; mixed: (back end, workers); prep: (back end, type, start class, count class, threads>count?, scratch mode, "
                           "outcome); sched: (accepted?, length class); wordmt: (back end, op, threads, outcome). non-trivial = at least one work item")
