"""C12 — declared scratch size always suffices and scratch contents never matter.

Gate 1 (proof): lake build Poulpy.Props.C12 — arena theorems, exact characterisation
        `run t a succeeds <-> req t <= available a`, per-operation sufficiency theorems, the
        `_counterexample`s of the operations whose `*_tmp_bytes` is too small, monotonicity.
Gate 2 (formula equality): Lean `tb_op shape` == the Rust `*_tmp_bytes` query, on small and large shapes.
Gate 3 (exact window): every modelled operation is run by the real code inside a window with
        `available() == tmp_bytes` carved at several misalignments out of a canary-filled allocation:
        outcome class (ok / take panic / assertion) must equal the model's `run`; canaries intact;
        result identical under two different non-zero pre-fills of the scratch; result identical across misalignments.
Gate 4 (take trace): every take the hook observed must end below the model's peak for that shape
        (one-sided); exact trace equality is counted as a diagnostic.
Gate 5 (requirement is exact): the real code succeeds in a window of `req` bytes and fails in `req-8`.
The poulpy-ckks evaluator (21 entries, CKKS_VARIANTS) runs gates 2, 3 on the two reference back ends, the query evaluated at the
parameter set's largest ciphertext layout; calls it rejects with Err are skipped; gates 4, 5 are not applied to it.
An operation that panics in its exact-size window violates C12: reported with key "<op>:exact-window"
(one class key "ring-degree-below-8:exact-window" when it only happens for N < 8; "split_mut:len%64!=0"
for split_mut).  The corpus holds the shapes of the defects repaired by docs/fixes/01-07: they must stay ok.
"""
from . import common

FFT = ["fft64ref", "fft64avx"]
NTT = ["ntt120ref", "ntt120avx"]
ALL = FFT + NTT
RADICES = [7, 13, 17, 19]


def fam(be):
    return "fft64" if be.startswith("fft64") else "ntt120"


def align_off(a):
    return (64 - a % 64) % 64


# ------------------------------------------------------------------------------------------------
# shape generators: each returns a dict of k=v (without n/be/mis)
# ------------------------------------------------------------------------------------------------
def sh_leaf(rng, big):
    return {"size": rng.range(1, 7 if not big else 30), "b2k": rng.choice(RADICES)}


def sh_norm(rng, big):
    d = sh_leaf(rng, big)
    d["ab2k"] = rng.choice(RADICES)
    return d


def sh_vmp(rng, big):
    rows = rng.range(1, 5 if not big else 12)
    return {"size": rng.range(1, 5), "asize": rng.range(1, 7 if not big else 20), "rows": rows, "colsin": rng.range(1, 3),
            "colsout": rng.range(1, 3)}


def sh_cnv(rng, big):
    m = 7 if not big else 24
    return {"size": rng.range(1, m), "asize": rng.range(1, m), "bsize": rng.range(1, m), "off": rng.range(0, 3)}


def sh_lwe(rng, big):
    # sizes 8, 16 make the 8*size take a multiple of 64: the only shapes where the LWE ops can work
    size = rng.choice([1, 2, 3, 4, 5, 6, 7, 8, 8, 16]) if not big else rng.range(1, 40)
    return {"size": size, "b2k": rng.choice(RADICES), "nlwe": rng.range(1, 9)}


def sh_glwe(rng, big):
    return {"size": rng.range(1, 7 if not big else 30), "b2k": rng.choice(RADICES), "rank": rng.range(0, 2)}


def sh_glwe_pk(rng, big):
    d = sh_glwe(rng, big)
    d["rank"] = rng.range(1, 2)
    d["pksize"] = d["size"]
    return d


def key_part(rng, big, rin, rout):
    dsize = rng.choice([1, 1, 2, 3])
    ksize = rng.range(dsize + 1, 7 if not big else 24)
    dnum = rng.range(1, ksize // dsize)
    return {"krin": rin, "krout": rout, "ksize": ksize, "kb2k": rng.choice(RADICES), "dnum": dnum, "dsize": dsize}


def sh_ks(rng, big):
    rin, rout = rng.range(1, 2), rng.range(1, 2)
    d = key_part(rng, big, rin, rout)
    cross = rng.chance(1, 3)
    d.update({"rank": rout, "size": rng.range(1, 7), "b2k": rng.choice(RADICES),
              "arank": rin, "asize": rng.range(1, 7),
              "ab2k": rng.choice([r for r in RADICES if r != d["kb2k"]]) if cross else d["kb2k"]})
    return d


def sh_ks_assign(rng, big):
    r = rng.range(1, 2)
    d = key_part(rng, big, r, r)
    cross = rng.chance(1, 3)
    d.update({"rank": r, "size": rng.range(1, 7),
              "b2k": rng.choice([x for x in RADICES if x != d["kb2k"]]) if cross else d["kb2k"]})
    return d


def sh_ext(rng, big):
    r = rng.range(0 if rng.chance(1, 6) else 1, 2)
    d = key_part(rng, big, r, r)
    cross = rng.chance(1, 3)
    d.update({"rank": r, "size": rng.range(1, 7), "b2k": rng.choice(RADICES), "arank": r, "asize": rng.range(1, 7),
              "ab2k": rng.choice([x for x in RADICES if x != d["kb2k"]]) if cross else d["kb2k"]})
    return d


def sh_ext_assign(rng, big):
    d = sh_ks_assign(rng, big)
    return d


def sh_auto(rng, big):
    r = rng.range(1, 2)
    d = key_part(rng, big, r, r)
    cross = rng.chance(1, 3)
    d.update({"rank": r, "size": rng.range(1, 7), "b2k": rng.choice(RADICES), "arank": r, "asize": rng.range(1, 7),
              "ab2k": rng.choice([x for x in RADICES if x != d["kb2k"]]) if cross else d["kb2k"]})
    return d


def sh_trace(rng, big):
    d = sh_auto(rng, big)
    d["iters"] = rng.range(1, 3)
    return d


def sh_trace_assign(rng, big):
    d = sh_ks_assign(rng, big)
    d["iters"] = rng.range(1, 3)
    return d


def sh_gglwe(rng, big):
    return key_part(rng, big, rng.range(1, 2), rng.range(0 if rng.chance(1, 5) else 1, 2))


def sh_ggsw(rng, big):
    r = rng.range(0 if rng.chance(1, 5) else 1, 2)
    return key_part(rng, big, r, r)


def sh_split(rng, big):
    return {"cnt": rng.range(1, 5), "len": rng.choice([64, 128, 192, 16, 8, 200, 320144, 1000]) if not big else 64 * rng.range(1, 999)}


def sh_cmux(rng, big):
    r = rng.range(1, 2)
    d = key_part(rng, big, r, r)
    d.update({"rank": r, "size": rng.range(1, 7), "b2k": d["kb2k"]})       # cmux asserts res.base2k == ggsw.base2k
    return d


BDD_STATE = {}          # circuit name -> max_state_size, filled from the compiled tables (pvh circuits)


def sh_bdd(rng, big):
    d = key_part(rng, big, 1, 1)
    d["dsize"] = 1
    d["dnum"] = rng.range(1, min(d["ksize"], 3))
    circ = rng.choice(sorted(BDD_STATE)) if BDD_STATE else "add"
    d.update({"rank": 1, "size": rng.range(1, 4), "b2k": d["kb2k"], "threads": rng.choice([1, 2, 3, 4]), "circ": circ,
              "state": BDD_STATE.get(circ, 3)})
    return d


def sh_none(rng, big):
    return {}


# name -> (shape generator, back ends, runnable in the harness, minimum n)
OPS = {
    "split_mut": (sh_split, ALL, True, 2),
    "vec_znx_normalize": (sh_norm, ALL, True, 1),
    "vec_znx_normalize_assign": (sh_leaf, ALL, True, 1),
    "vec_znx_lsh_assign": (sh_leaf, ALL, True, 1),
    "vec_znx_rsh_assign": (sh_leaf, ALL, True, 1),
    "vec_znx_lsh": (sh_leaf, ALL, True, 1),
    "vec_znx_rsh": (sh_leaf, ALL, True, 1),
    "vec_znx_rotate_assign": (sh_leaf, ALL, True, 1),
    "vec_znx_automorphism_assign": (sh_leaf, ALL, True, 2),
    "vec_znx_mul_xp_minus_one_assign": (sh_leaf, ALL, True, 1),
    "vec_znx_split_ring": (sh_leaf, ALL, True, 2),
    "vec_znx_merge_rings": (sh_leaf, ALL, True, 2),
    "vec_znx_big_normalize": (sh_leaf, ALL, True, 1),
    "vec_znx_big_automorphism_assign": (sh_leaf, ALL, True, 2),
    "vec_znx_idft_apply": (sh_leaf, ALL, True, 1),
    "vmp_prepare": (sh_vmp, ALL, True, 1),
    "vmp_apply_dft_to_dft": (sh_vmp, ALL, True, 1),
    "vmp_apply_dft": (sh_vmp, ALL, True, 1),
    "cnv_prepare_left": (sh_cnv, ALL, True, 1),
    "cnv_prepare_right": (sh_cnv, ALL, True, 1),
    "cnv_prepare_self": (sh_cnv, ALL, True, 1),
    "cnv_apply_dft": (sh_cnv, ALL, True, 1),
    "cnv_by_const_apply": (sh_cnv, ALL, True, 1),
    "cnv_pairwise_apply_dft": (sh_cnv, ALL, True, 1),
    "lwe_encrypt_sk": (sh_lwe, ALL, True, 1),
    "lwe_decrypt": (sh_lwe, ALL, True, 1),
    "glwe_encrypt_sk": (sh_glwe, ALL, True, 2),
    "glwe_encrypt_pk": (sh_glwe_pk, ALL, True, 8),   # glwe_public_key_generate allocates its own exact scratch: panics for N<8
    "glwe_encrypt_zero_sk": (sh_glwe, ALL, True, 2),
    "glwe_encrypt_zero_pk": (sh_glwe_pk, ALL, True, 8),
    "glwe_decrypt": (sh_glwe, ALL, True, 2),
    "glwe_normalize": (None, ALL, True, 2),
    "glwe_normalize_assign": (sh_glwe, ALL, True, 2),
    "glwe_rsh": (sh_glwe, ALL, True, 2),
    "glwe_lsh": (sh_glwe, ALL, True, 2),
    "glwe_lsh_assign": (sh_glwe, ALL, True, 2),
    "glwe_rotate_assign": (sh_glwe, ALL, True, 2),
    "glwe_mul_xp_minus_one_assign": (sh_glwe, ALL, True, 2),
    "glwe_keyswitch": (sh_ks, ALL, True, 2),
    "glwe_keyswitch_assign": (sh_ks_assign, ALL, True, 2),
    "glwe_external_product": (sh_ext, ALL, True, 2),
    "glwe_external_product_assign": (sh_ext_assign, ALL, True, 2),
    "glwe_automorphism": (sh_auto, ALL, True, 2),
    "glwe_automorphism_assign": (sh_ks_assign, ALL, True, 2),
    "glwe_automorphism_add": (sh_auto, ALL, True, 2),
    "glwe_automorphism_add_assign": (sh_ks_assign, ALL, True, 2),
    "glwe_automorphism_sub": (sh_auto, ALL, True, 2),
    "glwe_automorphism_sub_assign": (sh_ks_assign, ALL, True, 2),
    "glwe_automorphism_sub_negate": (sh_auto, ALL, True, 2),
    "glwe_automorphism_sub_negate_assign": (sh_ks_assign, ALL, True, 2),
    "glwe_trace": (sh_trace, ALL, True, 2),
    "glwe_trace_assign": (sh_trace_assign, ALL, True, 2),
    "gglwe_encrypt_sk": (sh_gglwe, ALL, True, 2),
    "cmux": (sh_cmux, ALL, True, 2),
    "execute_bdd": (sh_bdd, ALL, True, 32),      # FheUint<u32> packs 32 bits: n must be a multiple of 32
    "ckks_shift_norm": (sh_none, ["fft64ref", "ntt120ref"], True, 1),      # CKKSImpl is only compiled for the reference back ends here
    "ckks_shift": (sh_none, ["fft64ref", "ntt120ref"], True, 1),
    "ggsw_encrypt_sk": (sh_ggsw, ALL, True, 2),
}


def sh_glwe_norm(rng, big):
    d = sh_glwe(rng, big)
    d["ab2k"] = rng.choice(RADICES)
    return d


OPS["glwe_normalize"] = (sh_glwe_norm, ALL, True, 2)



# ------------------------------------------------------------------------------------------------
# table 3 (Model/ScratchOps2.lean)
# ------------------------------------------------------------------------------------------------
def sh_rank(rng, big):
    return {"rank": rng.range(1, 3)}


def sh_key(rin, rout, dsize1=False):
    def gen(rng, big):
        ri = rng.range(1, 2) if rin is None else rin
        ro = rng.range(1, 2) if rout is None else rout
        if rin == "same":
            ri = ro
        d = key_part(rng, big, ri, ro)
        if dsize1:
            d["dsize"] = 1
            d["dnum"] = rng.range(1, d["ksize"])
        d["nlwe"] = rng.range(1, 7)
        return d
    return gen


def mat_part(rng, d, cross_with):
    """result / input matrices (GGSW or GGLWE with dsize 1): sizes >= 2, dnum <= size"""
    d["size"] = rng.range(2, 6)
    d["asize"] = rng.range(2, 6)
    d["rdnum"] = rng.range(1, 2)
    d["adnum"] = rng.range(d["rdnum"], 2)
    d["grin"] = rng.range(1, 2)
    # the matrix forms assert res.base2k == a.base2k; cross-radix = different from the key's radix
    d["b2k"] = rng.choice([x for x in RADICES if x != cross_with]) if rng.chance(1, 3) else cross_with
    d["ab2k"] = d["b2k"]
    return d


def tsk_part(rng, d):
    tdsize = rng.choice([1, 1, 2, 3])
    d["tsize"] = rng.range(tdsize + 1, 7)
    d["tdnum"] = rng.range(1, d["tsize"] // tdsize)
    d["tdsize"] = tdsize
    d["tb2k"] = rng.choice(RADICES) if rng.chance(1, 3) else d["b2k"]
    return d


def sh_gglwe_ks(rng, big):
    d = key_part(rng, big, rng.range(1, 2), rng.range(1, 2))
    mat_part(rng, d, d["kb2k"])
    d["rank"], d["arank"] = d["krout"], d["krin"]
    return d


def sh_mat_same_rank(rng, big):
    r = rng.range(1, 2)
    d = key_part(rng, big, r, r)
    mat_part(rng, d, d["kb2k"])
    d["rank"] = d["arank"] = r
    return d


def sh_mat_assign(rng, big):
    return sh_mat_same_rank(rng, big)


def sh_expand(rng, big):
    d = {"rank": rng.range(1, 2), "size": rng.range(2, 6), "b2k": rng.choice(RADICES), "rdnum": rng.range(1, 2)}
    d.update({"asize": d["size"], "ab2k": d["b2k"], "adnum": d["rdnum"]})
    return tsk_part(rng, d)


def sh_ggsw_ks(rng, big):
    d = sh_mat_same_rank(rng, big)
    d["adnum"] = d["rdnum"]        # ggsw_keyswitch loops over a.dnum() rows of res
    return tsk_part(rng, d)


def sh_ggsw_ks_assign(rng, big):
    d = sh_mat_assign(rng, big)
    return tsk_part(rng, d)


def sh_glwe_from_lwe(rng, big):
    ro = rng.range(1, 2)
    d = key_part(rng, big, 1, ro)
    d["dsize"] = 1
    d["dnum"] = rng.range(1, d["ksize"])
    d.update({"rank": ro, "size": rng.range(1, 7), "b2k": rng.choice(RADICES), "lsize": rng.range(1, 7),
              "lb2k": rng.choice(RADICES) if rng.chance(1, 3) else d["kb2k"], "nlwe": rng.range(1, 7)})
    return d


def sh_lwe_from_glwe(rng, big):
    ri = rng.range(1, 2)
    d = key_part(rng, big, ri, 1)
    d["dsize"] = 1
    d["dnum"] = rng.range(1, d["ksize"])
    d.update({"arank": ri, "asize": rng.range(1, 7), "ab2k": rng.choice(RADICES) if rng.chance(1, 3) else d["kb2k"],
              "lsize": rng.range(1, 7), "lb2k": rng.choice(RADICES), "nlwe": rng.range(1, 7), "idx": rng.choice([0, 0, 1, 3])})
    return d


def sh_lwe_ks(rng, big):
    d = key_part(rng, big, 1, 1)
    d["dsize"] = 1
    d["dnum"] = rng.range(1, d["ksize"])
    d.update({"lsize": rng.range(1, 7), "lb2k": rng.choice(RADICES), "alsize": rng.range(1, 7),
              "alb2k": rng.choice(RADICES) if rng.chance(1, 3) else d["kb2k"], "nlwe": rng.range(1, 7)})
    return d


def sh_mul_const(rng, big):
    ab2k = rng.choice(RADICES)
    return {"rank": rng.range(0, 2), "size": rng.range(1, 7), "b2k": rng.choice(RADICES) if rng.chance(1, 3) else ab2k,
            "asize": rng.range(1, 7), "ab2k": ab2k, "bsize": rng.range(1, 3), "off": rng.choice([0, ab2k - 1, ab2k, 2 * ab2k + 3])}


def sh_mul_const_assign(rng, big):
    d = sh_mul_const(rng, big)
    d["b2k"] = d["ab2k"]
    d["off"] = rng.choice([0, d["b2k"] - 1, d["b2k"], 2 * d["b2k"] + 3])
    return d


def sh_noise(rng, big):
    return {"rank": rng.range(1, 2), "size": rng.range(2, 6), "b2k": rng.choice(RADICES), "rdnum": rng.range(1, 2), "grin": rng.range(1, 2),
            "col": rng.range(0, 2)}


def sh_pack(rng, big):
    r = rng.range(1, 2)
    d = key_part(rng, big, r, r)
    d.update({"rank": r, "size": rng.range(1, 6), "b2k": rng.choice([x for x in RADICES if x != d["kb2k"]]) if rng.chance(1, 3) else d["kb2k"]})
    return d


def sh_relin(rng, big):
    r = rng.range(1, 2)
    d = {"rank": r, "size": rng.range(1, 6), "b2k": rng.choice(RADICES), "arank": r, "asize": rng.range(1, 6), "ab2k": rng.choice(RADICES)}
    tsk_part(rng, d)
    d["tb2k"] = d["ab2k"] if not rng.chance(1, 3) else rng.choice([x for x in RADICES if x != d["ab2k"]])
    # with dsize > 1 the product resizes res_dft to the key's size: tsk_size < tsk.size() panics in set_size (not a scratch matter)
    d["tskuse"] = d["tsize"] if d["tdsize"] > 1 else rng.range(max(1, d["tsize"] - 1), d["tsize"])
    return d


def sh_cswap(rng, big):
    r = rng.range(1, 2)
    d = key_part(rng, big, r, r)
    # cross-radix cswap panics in glwe_sub (it subtracts the unconverted operands): same radix only
    b2k = d["kb2k"]
    d.update({"rank": r, "arank": r, "size": rng.range(1, 6), "asize": rng.range(1, 6), "b2k": b2k, "ab2k": b2k})
    return d


def sh_ckks_rot(rng, big):
    d = sh_ks_assign(rng, big)
    return d


def sh_ckks_pt(rng, big):
    b2k = rng.choice(RADICES)
    return {"rank": 1, "size": rng.range(1, 7), "b2k": b2k, "arank": 1, "asize": rng.range(1, 7), "ab2k": b2k, "ptk": rng.range(1, 6 * b2k)}


REF = ["fft64ref", "ntt120ref"]
OPS.update({
    "glwe_tensor_relinearize": (sh_relin, ALL, True, 8),
    "cswap": (sh_cswap, ALL, True, 8),
    "ckks_rotate": (sh_ckks_rot, REF, True, 8),
    "ckks_pt_vec_znx": (sh_none, REF, True, 1),
    "ckks_pt_vec_rnx": (sh_ckks_pt, REF, True, 1),
    "ckks_extract_pt": (sh_none, REF, True, 1),
    "ckks_encrypt_sk": (sh_glwe, REF, True, 1),
    "ckks_decrypt": (sh_glwe, REF, True, 1),
    "ckks_mul_pt_const": (sh_ckks_pt, REF, True, 1),
    "glwe_noise": (sh_glwe, ALL, True, 2),
    "gglwe_noise": (sh_noise, ALL, True, 2),
    "ggsw_noise": (sh_noise, ALL, True, 2),
    "glwe_tensor_decrypt": (sh_noise, ALL, True, 2),
    "glwe_pack": (sh_pack, ALL, True, 8),
    "glwe_packer_add": (sh_pack, ALL, True, 8),
    "glwe_secret_tensor_prepare": (sh_rank, ALL, True, 2),
    "glwe_switching_key_encrypt_sk": (sh_key(None, None), ALL, True, 2),
    "glwe_automorphism_key_encrypt_sk": (sh_key("same", None), ALL, True, 2),
    "glwe_tensor_key_encrypt_sk": (sh_key("same", None), ALL, True, 2),
    "gglwe_to_ggsw_key_encrypt_sk": (sh_key("same", None), ALL, True, 2),
    "lwe_switching_key_encrypt_sk": (sh_key(1, 1, True), ALL, True, 8),
    "lwe_to_glwe_key_encrypt_sk": (sh_key(1, None, True), ALL, True, 8),
    "glwe_to_lwe_key_encrypt_sk": (sh_key(None, 1, True), ALL, True, 8),
    "glwe_compressed_encrypt_sk": (sh_glwe, ALL, True, 2),
    "gglwe_compressed_encrypt_sk": (sh_gglwe, ALL, True, 2),
    "ggsw_compressed_encrypt_sk": (sh_ggsw, ALL, True, 2),
    "glwe_from_lwe": (sh_glwe_from_lwe, ALL, True, 8),
    "lwe_from_glwe": (sh_lwe_from_glwe, ALL, True, 8),
    "lwe_keyswitch": (sh_lwe_ks, ALL, True, 8),
    "gglwe_keyswitch": (sh_gglwe_ks, ALL, True, 8),
    "gglwe_keyswitch_assign": (sh_mat_assign, ALL, True, 8),
    "gglwe_external_product": (sh_mat_same_rank, ALL, True, 8),
    "gglwe_external_product_assign": (sh_mat_assign, ALL, True, 8),
    "ggsw_external_product": (sh_mat_same_rank, ALL, True, 8),
    "ggsw_external_product_assign": (sh_mat_assign, ALL, True, 8),
    "ggsw_from_gglwe": (sh_expand, ALL, True, 8),
    "ggsw_expand_row": (sh_expand, ALL, True, 8),
    "ggsw_keyswitch": (sh_ggsw_ks, ALL, True, 8),
    "ggsw_keyswitch_assign": (sh_ggsw_ks_assign, ALL, True, 8),
    "ggsw_automorphism": (sh_ggsw_ks, ALL, True, 8),
    "ggsw_automorphism_assign": (sh_ggsw_ks_assign, ALL, True, 8),
    "atk_automorphism": (sh_mat_same_rank, ALL, True, 8),
    "atk_automorphism_assign": (sh_mat_assign, ALL, True, 8),
    "ggsw_rotate_assign": (sh_expand, ALL, True, 2),
    "glwe_mul_const": (sh_mul_const, ALL, True, 2),
    "glwe_mul_const_assign": (sh_mul_const_assign, ALL, True, 2),
})


# ------------------------------------------------------------------------------------------------
# table 4 (Model/ScratchOps3.lean)
# ------------------------------------------------------------------------------------------------
def sh_prep(rng, big):
    # prepared matrix: dsize 1 keeps dnum free
    r = rng.range(1, 2)
    d = key_part(rng, big, r, r)
    d.update({"rank": r, "nlwe": rng.range(1, 4), "natk": rng.range(1, 3), "ksglwe": rng.range(0, 1)})
    return d


def sh_mul_plain(rng, big):
    ab2k = rng.choice(RADICES)
    m = 6 if not big else 24
    d = {"rank": rng.range(0, 2), "size": rng.range(1, m), "b2k": rng.choice(RADICES) if rng.chance(1, 3) else ab2k,
         "asize": rng.range(1, m), "ab2k": ab2k, "bsize": rng.range(1, m)}
    d["arank"] = d["rank"]
    d["ea"] = rng.range(max(1, d["asize"] - 1), d["asize"])
    d["eb"] = rng.range(max(1, d["bsize"] - 1), d["bsize"])
    d["off"] = rng.choice([0, ab2k - 1, ab2k, 2 * ab2k + 3, min(d["ea"], d["eb"]) * ab2k, min(d["ea"], d["eb"]) * ab2k + 5])
    return d


def sh_mul_plain_assign(rng, big):
    d = sh_mul_plain(rng, big)
    d["b2k"] = d["ab2k"]
    # res is the left operand: `ea` = limbs of the plaintext, `eb` = effective limbs of res
    d["eb"] = rng.range(max(1, d["size"] - 1), d["size"])
    d["ea"] = rng.range(max(1, d["bsize"] - 1), d["bsize"])
    d["off"] = rng.choice([0, d["b2k"], min(d["ea"], d["eb"]) * d["b2k"]])
    return d


def sh_tensor(rng, big):
    d = sh_mul_plain(rng, big)
    d["rank"] = d["arank"] = rng.range(1, 2)
    return d


def sh_tensor_sq(rng, big):
    d = sh_tensor(rng, big)
    d["off"] = rng.choice([0, d["ab2k"], d["ea"] * d["ab2k"], d["ea"] * d["ab2k"] + 5])
    return d


def brk_part(rng, d, big):
    d["bsize"] = rng.range(2, 4 if not big else 12)       # a GGSW needs size > dsize
    d["bdnum"] = rng.range(1, d["bsize"])
    d["bb2k"] = rng.choice(RADICES)
    d["block"] = rng.choice([1, 2, 3])
    d["nlwe"] = d["block"] * rng.range(1, 3)
    d["ext"] = 1
    return d


def sh_blind_rotation(rng, big):
    d = {"rank": rng.range(1, 2 if not rng.chance(1, 6) else 3), "size": rng.range(1, 4)}
    brk_part(rng, d, big)
    d["b2k"] = d["bb2k"]
    if d["block"] > 1 and rng.chance(1, 3):
        d["ext"] = 2
    return d


def sh_brk_key(rng, big):
    d = {"rank": rng.range(1, 2)}
    brk_part(rng, d, big)
    d["bsize"] = max(d["bsize"], 2)
    return d


def cbt_part(rng, big):
    """shapes of a circuit bootstrapping: result GGSW, blind-rotation key, automorphism keys (k), tensor key (t)"""
    r = rng.range(1, 2)
    d = {"rank": r}
    brk_part(rng, d, big)
    d["bsize"] = max(d["bsize"], 2)
    d["bdnum"] = rng.range(1, d["bsize"])
    d.update({"krin": r, "krout": r, "ksize": rng.range(2, 5), "kb2k": rng.choice(RADICES), "dsize": 1})
    d["dnum"] = rng.range(1, d["ksize"])
    d.update({"size": rng.range(2, 4), "b2k": rng.choice(RADICES)})
    # the LUT of the circuit bootstrapping holds 2^(b2k·(rdnum-1)) (asserted < 2^64; `lut.set` wants b2k·rdnum within i64)
    d["rdnum"] = rng.range(1, max(1, min(d["size"], 56 // d["b2k"])))
    d.update({"tsize": rng.range(2, 5), "tb2k": rng.choice(RADICES), "tdsize": 1})
    d["tdnum"] = rng.range(1, d["tsize"])
    d["natk"] = 5
    d["iters"] = 5
    return d


def sh_cbt(rng, big):
    return cbt_part(rng, big)


def sh_bdd_key(rng, big):
    d = cbt_part(rng, big)
    d.update({"lksize": rng.range(2, 4), "lkb2k": rng.choice(RADICES)})
    d["lkdnum"] = rng.range(1, d["lksize"])
    d["ksglwe"] = rng.range(0, 1)
    if d["ksglwe"]:
        d.update({"gkrout": 1, "gksize": rng.range(2, 6), "gkb2k": d["lkb2k"], "gkdsize": 1})
        d["gkdnum"] = rng.range(1, d["gksize"])
    return d


def sh_fhe_uint_prepare(rng, big):
    d = sh_bdd_key(rng, big)
    # block = 1 selects `execute_standard`, whose debug assertion `lwe.n() == brk.n_lwe()` rejects the LWE that
    # `fhe_uint_prepare` extracts (taken with the GLWE's degree): block-binary keys only
    if d["block"] == 1:
        d["block"] = 2
        d["nlwe"] = 2 * rng.range(1, 3)
    d.update({"arank": d["rank"], "asize": rng.range(1, 3), "ab2k": rng.choice(RADICES), "threads": rng.range(1, 3),
              "bitsper": rng.range(1, 2), "idx": 1})
    return d


def sh_bdd_rot(rng, big):
    d = sh_cmux(rng, big)
    d["size"] = max(d["size"], 2)          # the GGSW forms need size > dsize
    d.update({"bitmask": rng.range(1, 3), "cells": rng.range(1, 4), "steps": rng.range(1, 4)})
    return d


def sh_bdd_retrieval(rng, big):
    d = sh_cswap(rng, big)
    d["asize"] = d["size"]
    d["steps"] = rng.range(1, 4)
    return d


def sh_bdd_2w(rng, big):
    d = sh_bdd(rng, big)
    d["bits"] = 32
    d.update({"tsize": rng.range(2, 5), "tb2k": d["b2k"], "tdsize": 1})
    d["tdnum"] = rng.range(1, d["tsize"])
    d["rounds"] = 5
    d["iters"] = 5
    return d


def sh_ckks_mul(rng, big):
    r = rng.range(1, 2)
    b2k = rng.choice(RADICES)
    d = {"rank": r, "size": rng.range(2, 6), "b2k": b2k}
    tsk_part(rng, d)
    d["tb2k"] = b2k if not rng.chance(1, 4) else d["tb2k"]
    d["ea"] = rng.range(max(1, d["size"] - 1), d["size"])
    d["eb"] = rng.range(max(1, d["size"] - 1), d["size"])
    d["off"] = rng.choice([min(d["ea"], d["eb"]) * b2k, min(d["ea"], d["eb"]) * b2k + 5, (min(d["ea"], d["eb"]) + 1) * b2k])
    d.update({"cnt": rng.range(1, 5), "levels": 0})
    d["levels"] = 0 if d["cnt"] <= 2 else (1 if d["cnt"] <= 4 else 2)
    return d


def sh_ckks_mul_pt(rng, big):
    d = sh_mul_plain(rng, big)
    d["b2k"] = d["ab2k"]
    d["rank"] = d["arank"] = 1
    d["eb"] = d["bsize"]
    d["off"] = min(d["ea"], d["eb"]) * d["b2k"]
    d["ptk"] = d["bsize"] * d["b2k"]       # CKKSMeta of the plaintext: min_k = bsize limbs
    return d


def sh_ckks_all(rng, big):
    d = sh_ckks_mul(rng, big)
    d["bsize"] = rng.range(1, 4)
    d["ptk"] = d["bsize"] * d["b2k"]
    d.update({"arank": d["rank"], "asize": d["size"], "ab2k": d["b2k"]})
    d.update({"krin": d["rank"], "krout": d["rank"], "ksize": rng.range(2, 6), "kb2k": d["b2k"], "dsize": 1})
    d["dnum"] = rng.range(1, d["ksize"])
    return d


OPS.update({
    "gglwe_prepare": (sh_prep, ALL, True, 8),
    "ggsw_prepare": (sh_prep, ALL, True, 8),
    "glwe_switching_key_prepare": (sh_prep, ALL, True, 8),
    "glwe_automorphism_key_prepare": (sh_prep, ALL, True, 8),
    "prepare_tensor_key": (sh_prep, ALL, True, 8),
    "gglwe_to_ggsw_key_prepare": (sh_prep, ALL, True, 8),
    "lwe_switching_key_prepare": (sh_prep, ALL, True, 8),
    "lwe_to_glwe_key_prepare": (sh_prep, ALL, True, 8),
    "glwe_to_lwe_key_prepare": (sh_prep, ALL, True, 8),
    "glwe_switching_key_compressed_encrypt_sk": (sh_key(None, None), ALL, True, 2),
    "glwe_automorphism_key_compressed_encrypt_sk": (sh_key("same", None), ALL, True, 2),
    "glwe_tensor_key_compressed_encrypt_sk": (sh_key("same", None), ALL, True, 2),
    "gglwe_to_ggsw_key_compressed_encrypt_sk": (sh_key("same", None), ALL, True, 2),
    "glwe_mul_plain": (sh_mul_plain, ALL, True, 8),
    "glwe_mul_plain_assign": (sh_mul_plain_assign, ALL, True, 8),
    "glwe_tensor_apply": (sh_tensor, ALL, True, 8),
    "glwe_tensor_apply_add_assign": (sh_tensor, ALL, True, 8),
    "glwe_tensor_square_apply": (sh_tensor_sq, ALL, True, 8),
    "blind_rotation_execute": (sh_blind_rotation, ALL, True, 8),
    "blind_rotation_key_encrypt_sk": (sh_brk_key, ALL, True, 8),
    "blind_rotation_key_compressed_encrypt_sk": (sh_brk_key, ALL, True, 8),
    "blind_rotation_key_prepare": (sh_brk_key, ALL, True, 8),
    "circuit_bootstrapping_execute": (sh_cbt, ALL, True, 32),
    "circuit_bootstrapping_key_encrypt_sk": (sh_cbt, ALL, True, 32),
    "circuit_bootstrapping_key_prepare": (sh_cbt, ALL, True, 32),
    "bdd_key_encrypt_sk": (sh_bdd_key, ALL, True, 32),
    "prepare_bdd_key": (sh_bdd_key, ALL, True, 32),
    "fhe_uint_prepare": (sh_fhe_uint_prepare, ALL, True, 32),
    "glwe_blind_rotation": (sh_bdd_rot, ALL, True, 8),
    "ggsw_to_ggsw_blind_rotation": (sh_bdd_rot, ALL, True, 8),
    "scalar_to_ggsw_blind_rotation": (sh_bdd_rot, ALL, True, 8),
    "glwe_blind_selection": (sh_bdd_rot, ALL, True, 32),
    "glwe_blind_retrieval": (sh_bdd_retrieval, ALL, True, 8),
    "retrieve": (sh_bdd_rot, ALL, True, 8),
    "bdd_2w_to_1w": (sh_bdd_2w, ALL, True, 32),
    "fhe_uint_encrypt_sk": (sh_glwe, ALL, True, 32),
    "fhe_uint_decrypt": (sh_glwe, ALL, True, 32),
    "ckks_mul": (sh_ckks_mul, REF, True, 8),
    "ckks_square": (sh_ckks_mul, REF, True, 8),
    "ckks_mul_pt_vec_znx": (sh_ckks_mul_pt, REF, True, 8),
    "ckks_mul_pt_vec_rnx": (sh_ckks_mul_pt, REF, True, 8),
    "ckks_composite_ct": (sh_ckks_mul, REF, True, 8),
    "ckks_composite_pt_vec_znx": (sh_ckks_mul_pt, REF, True, 8),
    "ckks_composite_pt_vec_rnx": (sh_ckks_mul_pt, REF, True, 8),
    "ckks_composite_pt_const": (sh_ckks_mul_pt, REF, True, 8),
    "ckks_mul_many": (sh_ckks_mul, REF, True, 8),
    "ckks_dot_product_ct": (sh_ckks_mul, REF, True, 8),
    "ckks_all_ops": (sh_ckks_all, REF, True, 8),
    "ckks_all_ops_with_atk": (sh_ckks_all, REF, True, 8),
})


# ------------------------------------------------------------------------------------------------
# shift / normalise family: full grid  (operand size < = > destination size) x (shift class) x both families
# ------------------------------------------------------------------------------------------------
# The scratch of these kernels (a carry buffer, for the right shifts and the normalisations also a spare limb) is
# initialised on different paths depending on how the operand falls on the destination after the limb shift: by the
# first "carry only" step when limbs of the operand are discarded, by an explicit zero fill otherwise, and a second
# zero fill when the operand ends up entirely below the destination.  Every (relation, class) cell is generated for
# both families; `GRID[op]` gives the cells, the i-th shape of an operation takes cell (i // 2) % len(cells) and back end
# GRID_BES[i % 4], so two consecutive shapes are the same cell on FFT64 and NTT120.
GRID_BES = ["fft64ref", "ntt120ref", "fft64avx", "ntt120avx"]
REL = ["a_lt_res", "a_eq_res", "a_gt_res"]
LSH_CLASSES = ["k0", "k_lt_b", "k_eq_b", "limbs_bits", "k_ge_size_b", "fits_after_limb_shift_bits", "fits_after_limb_shift_exact"]
RSH_CLASSES = ["k0", "k_lt_b", "k_eq_b", "limbs_bits", "k_ge_size_b_gap", "lands_inside_bits", "lands_inside_exact"]
OFF_CLASSES = ["off0", "off_lt_b", "off_eq_b", "off_limbs_bits", "off_ge_asize_b", "off_neg_bits", "off_neg_b", "off_neg_limbs_bits",
               "off_below_res_gap_small", "off_below_res_gap_large"]


def _sizes(rng, rel):
    if rel == "a_lt_res":
        r = rng.range(2, 5)
        return r, rng.range(1, r - 1)
    if rel == "a_eq_res":
        r = rng.range(1, 4)
        return r, r
    a = rng.range(2, 5)
    return rng.range(1, a - 1), a


def _lsh_k(rng, cls, r, a, b):
    rem = rng.range(1, b - 1)
    if cls == "k0":
        return 0
    if cls == "k_lt_b":
        return rem
    if cls == "k_eq_b":
        return b
    if cls == "limbs_bits":
        return rng.range(1, max(1, max(r, a) - 1)) * b + rem
    if cls == "k_ge_size_b":
        return max(r, a) * b + rng.choice([0, rem, b + rem])
    # the operand has more limbs than the destination but fits again after the limb shift: res < a <= res + k / b
    # (for a <= res: the largest shift that still leaves one limb of the operand / exactly consumes the operand)
    steps = (a - r) if a > r else (a if a < r else max(1, a - 1))
    return steps * b + (rem if cls.endswith("_bits") else 0)


def _rsh_k(rng, cls, r, a, b):
    rem = rng.range(1, b - 1)
    if cls == "k0":
        return 0
    if cls == "k_lt_b":
        return rem
    if cls == "k_eq_b":
        return b
    if cls == "limbs_bits":
        return rng.range(1, max(1, r - 1)) * b + rem
    if cls == "k_ge_size_b_gap":
        return (r + rng.range(0, 2)) * b + rng.choice([0, rem])
    # the shifted operand lands exactly inside the destination (nothing discarded: the carry is zero-filled), or,
    # when it is not shorter, the shift that moves all of it out but one limb
    steps = (r - a) if a < r else max(1, r - 1)
    return steps * b + (rem if cls.endswith("_bits") else 0)


def _off(rng, cls, r, a, b, ab):
    """res_offset (in bits of the operand's radix `ab`; the destination has `r` limbs of radix `b`)"""
    rem = rng.range(1, ab - 1)
    if cls == "off_below_res_gap_small":      # operand entirely below the destination, by less than 64 bits
        return -(((r * b + ab - 1) // ab + 1) * ab)
    if cls == "off_below_res_gap_large":      # ... by 64 bits or more (the cross-radix path zero-fills the carry)
        return -(((r * b + 64 + ab - 1) // ab + 1 + rng.range(0, 2)) * ab + rng.choice([0, rem]))
    return {"off0": 0, "off_lt_b": rem, "off_eq_b": ab, "off_limbs_bits": rng.range(1, max(1, a - 1)) * ab + rem,
            "off_ge_asize_b": a * ab + rng.choice([0, rem]), "off_neg_bits": -rem, "off_neg_b": -ab,
            "off_neg_limbs_bits": -(rng.range(1, max(1, r - 1)) * ab + rem)}[cls]


# ---- which initialisation path of the scratch temporaries a shape takes (mirrors the branch conditions of
# poulpy-cpu-ref/src/reference/vec_znx/{shift,normalize}.rs and reference/ntt120/vec_znx_big.rs)
def branch_lsh(r, a, k, b):
    steps = k // b
    if steps >= max(r, a):
        return "early_return"
    min_size = min(r, max(a - steps, 0))
    first = min(steps + min_size, a) < a          # some limbs of the operand only contribute their carry
    return ("carry_by_first_step" if first else "carry_zero_filled") + ("+main" if min_size > 0 else "+no_main")


def branch_lsh_assign(r, k, b):
    return "early_return" if k // b >= r else "carry_by_first_step"


def branch_rsh(r, a, k, b):
    steps = -(-k // b)
    a_start = min(a, max(r - steps, 0))
    return ("carry_zero_filled" if a - a_start == 0 else "carry_by_first_step") + ("+gap_spare_zero_filled" if steps > r else "+no_gap")


def branch_rsh_assign(r, k, b):
    steps = -(-k // b)
    return ("carry_zero_filled" if steps == 0 else "carry_by_first_step") + ("+gap_spare_zero_filled" if steps > r else "+no_gap")


def branch_normalize(r, a, off, b, ab):
    lsh, lo = off % ab, off // ab                 # python floor division = the corrected (lsh, limbs_offset) of the Rust code
    if b == ab:
        a_start = min(max(r + lo, 0), a)
        return "inter:" + ("carry_zero_filled" if a - a_start == 0 else "carry_by_first_step") + ("+gap_spare_zero_filled" if -lo > r else "+no_gap")
    a_tot, r_tot = a * ab, r * b
    res_start = -(-min(max(a_tot - lo * ab, 0), r_tot) // b)
    if res_start == 0:
        return "cross:early_return"
    a_start = -(-min(max(r_tot + lo * ab, 0), a_tot) // ab)
    gap_bits = max(-lo * ab - r_tot, 0)
    return ("cross:" + ("carry_zero_filled" if a - a_start == 0 else "carry_by_first_step")
            + ("+no_gap" if gap_bits == 0 else "+gap_scaled" if gap_bits < 64 else "+gap_carry_zero_filled"))


BRANCHES = {
    ("lsh", True): ["early_return", "carry_zero_filled+main", "carry_zero_filled+no_main", "carry_by_first_step+main"],
    ("lsh", False): ["early_return", "carry_by_first_step"],
    ("rsh", True): ["carry_zero_filled+no_gap", "carry_by_first_step+no_gap", "carry_by_first_step+gap_spare_zero_filled"],
    ("rsh", False): ["carry_zero_filled+no_gap", "carry_by_first_step+no_gap", "carry_by_first_step+gap_spare_zero_filled"],
    ("off", True): ["inter:carry_zero_filled+no_gap", "inter:carry_by_first_step+no_gap", "inter:carry_by_first_step+gap_spare_zero_filled",
                    "cross:early_return", "cross:carry_zero_filled+no_gap", "cross:carry_by_first_step+no_gap",
                    "cross:carry_by_first_step+gap_scaled", "cross:carry_by_first_step+gap_carry_zero_filled"],
}


def shape_branch(kind, two_operand, d):
    r, b = d["size"], d["b2k"]
    a = d.get("asize", r)
    if kind == "lsh":
        return branch_lsh(r, a, d["sh"], b) if two_operand else branch_lsh_assign(r, d["sh"], b)
    if kind == "rsh":
        return branch_rsh(r, a, d["sh"], b) if two_operand else branch_rsh_assign(r, d["sh"], b)
    return branch_normalize(r, a, -d["roff"] if d["rneg"] else d["roff"], b, d["ab2k"])


def grid_gen(kind, two_operand, glwe=False):
    """generator with an internal counter walking the grid (each cell twice in a row: the two families).  Cells: every
    (size relation, shift class), then one cell per initialisation path of the scratch temporaries (rejection sampling)."""
    classes = {"lsh": LSH_CLASSES, "rsh": RSH_CLASSES, "off": OFF_CLASSES}[kind]
    rels = REL if two_operand else ["a_eq_res"]
    cells = [(rel, c) for rel in rels for c in classes] + [("path", br) for br in BRANCHES[(kind, two_operand)]]
    state = {"i": 0}

    def one(rng, big, rel, cls, cross=None):
        b = rng.choice(RADICES)
        r, a = _sizes(rng, rel)
        if big:
            r, a = r + rng.range(0, 20), a + rng.range(0, 20)
        d = {"size": r, "b2k": b}
        if glwe:
            d["rank"] = rng.range(0, 2)
        if two_operand:
            d["asize"] = a
        if kind == "lsh":
            d["sh"] = _lsh_k(rng, cls, r, a, b)
        elif kind == "rsh":
            d["sh"] = _rsh_k(rng, cls, r, a, b)
        else:
            if cross is None:
                cross = rng.chance(1, 3)
            ab = rng.choice([x for x in RADICES if x != b]) if cross else b
            off = _off(rng, cls, r, a, b, ab)
            d.update({"ab2k": ab, "roff": abs(off), "rneg": 1 if off < 0 else 0})
        return d

    def gen(rng, big):
        rel, cls = cells[(state["i"] // 2) % len(cells)]
        state["i"] += 1
        if rel != "path":
            d = one(rng, big, rel, cls)
        else:
            for _ in range(2000):
                d = one(rng, False, rng.choice(rels), rng.choice(classes), cross=cls.startswith("cross:") if kind == "off" else None)
                if shape_branch(kind, two_operand, d) == cls:
                    break
            else:
                raise RuntimeError(f"initialisation path {cls} of the {kind} family not reachable by the generator")
        d["cell"] = f"{rel}.{cls}".replace(":", "_").replace("+", "_")
        d["path"] = shape_branch(kind, two_operand, d).replace(":", "_").replace("+", "_")
        return d
    gen.cells = [(rel, c.replace(":", "_").replace("+", "_")) for rel, c in cells]
    gen.kind = (kind, two_operand)
    return gen


GRID = {
    "vec_znx_lsh": grid_gen("lsh", True), "vec_znx_lsh_add_into": grid_gen("lsh", True), "vec_znx_lsh_sub": grid_gen("lsh", True),
    "vec_znx_lsh_assign": grid_gen("lsh", False),
    "vec_znx_rsh": grid_gen("rsh", True), "vec_znx_rsh_add_into": grid_gen("rsh", True), "vec_znx_rsh_sub": grid_gen("rsh", True),
    "vec_znx_rsh_assign": grid_gen("rsh", False),
    "vec_znx_normalize": grid_gen("off", True), "vec_znx_big_normalize": grid_gen("off", True),
    "vec_znx_big_normalize_add_assign": grid_gen("off", True), "vec_znx_big_normalize_sub_assign": grid_gen("off", True),
    "glwe_lsh": grid_gen("lsh", True, True), "glwe_lsh_add": grid_gen("lsh", True, True), "glwe_lsh_sub": grid_gen("lsh", True, True),
    "glwe_lsh_assign": grid_gen("lsh", False, True), "glwe_rsh": grid_gen("rsh", False, True),
}
for _op, _g in GRID.items():
    OPS[_op] = (_g, ALL, True, 2 if _op.startswith("glwe_") or "big" in _op else 1)


# ------------------------------------------------------------------------------------------------
# coverage accounting: every `*_tmp_bytes` query found by tools/list_tmp_bytes.py must appear here
#   ("ops", [entries of OPS])      modelled: formula tied, the listed operations run / compared
#   ("alias", "<query>")           returns the value of another query without an operation of its own (counted once, with it)
#   ("internal", [entries], why)   internal helper without public operation; modelled as `tb…`, tied through the listed callers
#   ("remainder", why)             not modelled, with the reason
# A query found in the sources and missing here is reported as UNMODELLED (a new query shows up as uncovered).
# ------------------------------------------------------------------------------------------------
def _ops(*names):
    return ("ops", list(names))


COVERS = {
    # poulpy-hal / back ends
    "vec_znx_normalize_tmp_bytes": _ops("vec_znx_normalize", "vec_znx_normalize_assign"),
    "vec_znx_lsh_tmp_bytes": _ops("vec_znx_lsh", "vec_znx_lsh_assign", "vec_znx_lsh_add_into", "vec_znx_lsh_sub"),
    "vec_znx_rsh_tmp_bytes": _ops("vec_znx_rsh", "vec_znx_rsh_assign", "vec_znx_rsh_add_into", "vec_znx_rsh_sub"),
    "vec_znx_rotate_assign_tmp_bytes": _ops("vec_znx_rotate_assign"),
    "vec_znx_automorphism_assign_tmp_bytes": _ops("vec_znx_automorphism_assign"),
    "vec_znx_mul_xp_minus_one_assign_tmp_bytes": _ops("vec_znx_mul_xp_minus_one_assign"),
    "vec_znx_split_ring_tmp_bytes": _ops("vec_znx_split_ring"),
    "vec_znx_merge_rings_tmp_bytes": _ops("vec_znx_merge_rings"),
    "vec_znx_big_normalize_tmp_bytes": _ops("vec_znx_big_normalize", "vec_znx_big_normalize_add_assign", "vec_znx_big_normalize_sub_assign"),
    "vec_znx_big_automorphism_assign_tmp_bytes": _ops("vec_znx_big_automorphism_assign"),
    "vec_znx_idft_apply_tmp_bytes": _ops("vec_znx_idft_apply"),
    "vmp_prepare_tmp_bytes": _ops("vmp_prepare"),
    "vmp_apply_dft_tmp_bytes": _ops("vmp_apply_dft"),
    "vmp_apply_dft_to_dft_tmp_bytes": _ops("vmp_apply_dft_to_dft"),
    "cnv_prepare_left_tmp_bytes": _ops("cnv_prepare_left", "glwe_mul_plain"),
    "cnv_prepare_right_tmp_bytes": _ops("cnv_prepare_right", "glwe_mul_plain"),
    "cnv_prepare_self_tmp_bytes": _ops("cnv_prepare_self", "glwe_tensor_square_apply"),
    "cnv_apply_dft_tmp_bytes": _ops("cnv_apply_dft", "glwe_mul_plain", "glwe_tensor_apply"),
    "cnv_by_const_apply_tmp_bytes": _ops("cnv_by_const_apply", "glwe_mul_const"),
    "cnv_pairwise_apply_dft_tmp_bytes": _ops("cnv_pairwise_apply_dft", "glwe_tensor_apply"),
    "rsh_tmp_bytes": ("remainder", "`VecZnx::<Vec<u8>>::rsh_tmp_bytes(n)` (poulpy-hal/src/layouts/vec_znx.rs): a static helper no operation "
                                   "or query calls; the right-shift operations use vec_znx_rsh_tmp_bytes"),
    # poulpy-core: encryption / decryption
    "lwe_encrypt_sk_tmp_bytes": _ops("lwe_encrypt_sk"),
    "lwe_decrypt_tmp_bytes": _ops("lwe_decrypt"),
    "glwe_encrypt_sk_tmp_bytes": _ops("glwe_encrypt_sk", "glwe_encrypt_zero_sk"),
    "glwe_encrypt_pk_tmp_bytes": _ops("glwe_encrypt_pk", "glwe_encrypt_zero_pk"),
    "glwe_decrypt_tmp_bytes": _ops("glwe_decrypt"),
    "glwe_compressed_encrypt_sk_tmp_bytes": _ops("glwe_compressed_encrypt_sk"),
    "gglwe_encrypt_sk_tmp_bytes": _ops("gglwe_encrypt_sk"),
    "gglwe_compressed_encrypt_sk_tmp_bytes": _ops("gglwe_compressed_encrypt_sk"),
    "ggsw_encrypt_sk_tmp_bytes": _ops("ggsw_encrypt_sk"),
    "ggsw_compressed_encrypt_sk_tmp_bytes": _ops("ggsw_compressed_encrypt_sk"),
    "glwe_secret_tensor_prepare_tmp_bytes": _ops("glwe_secret_tensor_prepare"),
    "glwe_switching_key_encrypt_sk_tmp_bytes": _ops("glwe_switching_key_encrypt_sk"),
    "glwe_switching_key_compressed_encrypt_sk_tmp_bytes": _ops("glwe_switching_key_compressed_encrypt_sk"),
    "glwe_switching_key_encrypt_pk_tmp_bytes": ("remainder", "`unimplemented!()`: there is no formula and no operation (poulpy-core/src/encryption/glwe_switching_key.rs)"),
    "glwe_automorphism_key_encrypt_sk_tmp_bytes": _ops("glwe_automorphism_key_encrypt_sk"),
    "glwe_automorphism_key_compressed_encrypt_sk_tmp_bytes": _ops("glwe_automorphism_key_compressed_encrypt_sk"),
    "glwe_automorphism_key_encrypt_pk_tmp_bytes": ("remainder", "`unimplemented!()`: there is no formula and no operation (poulpy-core/src/encryption/glwe_automorphism_key.rs)"),
    "glwe_tensor_key_encrypt_sk_tmp_bytes": _ops("glwe_tensor_key_encrypt_sk"),
    "glwe_tensor_key_compressed_encrypt_sk_tmp_bytes": _ops("glwe_tensor_key_compressed_encrypt_sk"),
    "gglwe_to_ggsw_key_encrypt_sk_tmp_bytes": _ops("gglwe_to_ggsw_key_encrypt_sk"),
    "gglwe_to_ggsw_key_compressed_encrypt_sk_tmp_bytes": _ops("gglwe_to_ggsw_key_compressed_encrypt_sk"),
    "lwe_switching_key_encrypt_sk_tmp_bytes": _ops("lwe_switching_key_encrypt_sk"),
    "lwe_to_glwe_key_encrypt_sk_tmp_bytes": _ops("lwe_to_glwe_key_encrypt_sk"),
    "glwe_to_lwe_key_encrypt_sk_tmp_bytes": _ops("glwe_to_lwe_key_encrypt_sk"),
    # poulpy-core: prepared layouts
    "gglwe_prepare_tmp_bytes": _ops("gglwe_prepare"),
    "ggsw_prepare_tmp_bytes": _ops("ggsw_prepare"),
    "glwe_switching_key_prepare_tmp_bytes": _ops("glwe_switching_key_prepare"),
    "glwe_automorphism_key_prepare_tmp_bytes": _ops("glwe_automorphism_key_prepare"),
    "prepare_tensor_key_tmp_bytes": _ops("prepare_tensor_key"),
    "gglwe_to_ggsw_key_prepare_tmp_bytes": _ops("gglwe_to_ggsw_key_prepare"),
    "lwe_switching_key_prepare_tmp_bytes": _ops("lwe_switching_key_prepare"),
    "lwe_to_glwe_key_prepare_tmp_bytes": _ops("lwe_to_glwe_key_prepare"),
    "glwe_to_lwe_key_prepare_tmp_bytes": _ops("glwe_to_lwe_key_prepare"),
    # poulpy-core: operations
    "glwe_normalize_tmp_bytes": _ops("glwe_normalize", "glwe_normalize_assign"),
    "glwe_shift_tmp_bytes": _ops("glwe_rsh", "glwe_lsh", "glwe_lsh_assign", "glwe_lsh_add", "glwe_lsh_sub"),
    "glwe_rotate_tmp_bytes": _ops("glwe_rotate_assign", "glwe_mul_xp_minus_one_assign"),
    "ggsw_rotate_tmp_bytes": _ops("ggsw_rotate_assign"),
    "glwe_mul_const_tmp_bytes": _ops("glwe_mul_const", "glwe_mul_const_assign"),
    "glwe_mul_plain_tmp_bytes": _ops("glwe_mul_plain", "glwe_mul_plain_assign"),
    "glwe_tensor_apply_tmp_bytes": _ops("glwe_tensor_apply", "glwe_tensor_apply_add_assign"),
    "glwe_tensor_square_apply_tmp_bytes": _ops("glwe_tensor_square_apply"),
    "glwe_tensor_relinearize_tmp_bytes": _ops("glwe_tensor_relinearize"),
    "glwe_tensor_decrypt_tmp_bytes": _ops("glwe_tensor_decrypt"),
    "glwe_keyswitch_tmp_bytes": _ops("glwe_keyswitch", "glwe_keyswitch_assign"),
    "glwe_keyswitch_internal_tmp_bytes": ("internal", ["glwe_keyswitch", "glwe_automorphism_add"], "`pub(crate)` helper: `tbKsInternal`, its tree carries the assertion"),
    "gglwe_product_dft_tmp_bytes": ("internal", ["glwe_keyswitch", "ggsw_expand_row", "glwe_tensor_relinearize"], "helper of the key switch: `tbGglweProduct`, its tree carries the assertion"),
    "glwe_external_product_tmp_bytes": _ops("glwe_external_product", "glwe_external_product_assign"),
    "glwe_external_product_internal_tmp_bytes": ("internal", ["glwe_external_product", "cmux", "cswap"], "helper of the external product: `tbExtInternal`, its tree carries the assertion"),
    "gglwe_keyswitch_tmp_bytes": _ops("gglwe_keyswitch", "gglwe_keyswitch_assign"),
    "gglwe_external_product_tmp_bytes": _ops("gglwe_external_product", "gglwe_external_product_assign"),
    "ggsw_external_product_tmp_bytes": _ops("ggsw_external_product", "ggsw_external_product_assign"),
    "ggsw_keyswitch_tmp_bytes": _ops("ggsw_keyswitch", "ggsw_keyswitch_assign"),
    "ggsw_automorphism_tmp_bytes": _ops("ggsw_automorphism", "ggsw_automorphism_assign"),
    "ggsw_from_gglwe_tmp_bytes": _ops("ggsw_from_gglwe"),
    "ggsw_expand_rows_tmp_bytes": _ops("ggsw_expand_row"),
    "glwe_automorphism_tmp_bytes": _ops("glwe_automorphism", "glwe_automorphism_assign", "glwe_automorphism_add", "glwe_automorphism_sub",
                                        "glwe_automorphism_sub_negate"),
    "glwe_automorphism_key_automorphism_tmp_bytes": _ops("atk_automorphism", "atk_automorphism_assign"),
    "glwe_trace_tmp_bytes": _ops("glwe_trace"),
    "glwe_trace_assign_tmp_bytes": _ops("glwe_trace_assign"),
    "glwe_pack_tmp_bytes": _ops("glwe_pack"),
    "glwe_packer_tmp_bytes": _ops("glwe_packer_add"),
    "glwe_from_lwe_tmp_bytes": _ops("glwe_from_lwe"),
    "lwe_from_glwe_tmp_bytes": _ops("lwe_from_glwe"),
    "lwe_keyswitch_tmp_bytes": _ops("lwe_keyswitch"),
    "glwe_noise_tmp_bytes": _ops("glwe_noise"),
    "gglwe_noise_tmp_bytes": _ops("gglwe_noise"),
    "ggsw_noise_tmp_bytes": _ops("ggsw_noise"),
    # poulpy-bin-fhe
    "cmux_tmp_bytes": _ops("cmux"),
    "cswap_tmp_bytes": _ops("cswap"),
    "execute_bdd_circuit_tmp_bytes": _ops("execute_bdd"),
    "execute_bdd_circuit_2w_to_1w_tmp_bytes": _ops("bdd_2w_to_1w"),
    "execute_bdd_circuit_2w_to_1w_multi_thread_tmp_bytes": _ops("bdd_2w_to_1w"),
    "$method_name_tmp_bytes": ("alias", "execute_bdd_circuit_2w_to_1w_tmp_bytes"),
    "$method_name_multi_thread_tmp_bytes": ("alias", "execute_bdd_circuit_2w_to_1w_multi_thread_tmp_bytes"),
    "blind_rotation_execute_tmp_bytes": _ops("blind_rotation_execute"),
    "execute_tmp_bytes": ("alias", "blind_rotation_execute_tmp_bytes"),
    "blind_rotation_key_encrypt_sk_tmp_bytes": _ops("blind_rotation_key_encrypt_sk"),
    "encrypt_sk_tmp_bytes": _ops("fhe_uint_encrypt_sk", "blind_rotation_key_encrypt_sk"),
    "blind_rotation_key_compressed_encrypt_sk_tmp_bytes": _ops("blind_rotation_key_compressed_encrypt_sk"),
    "blind_rotation_key_prepare_tmp_bytes": _ops("blind_rotation_key_prepare"),
    "prepare_tmp_bytes": ("alias", "blind_rotation_key_prepare_tmp_bytes"),
    "circuit_bootstrapping_execute_tmp_bytes": _ops("circuit_bootstrapping_execute"),
    "circuit_bootstrapping_key_encrypt_sk_tmp_bytes": _ops("circuit_bootstrapping_key_encrypt_sk"),
    "circuit_bootstrapping_key_prepare_tmp_bytes": _ops("circuit_bootstrapping_key_prepare"),
    "bdd_key_encrypt_sk_tmp_bytes": _ops("bdd_key_encrypt_sk"),
    "prepare_bdd_key_tmp_bytes": _ops("prepare_bdd_key"),
    "fhe_uint_prepare_tmp_bytes": _ops("fhe_uint_prepare"),
    "decrypt_tmp_bytes": _ops("fhe_uint_decrypt"),
    "glwe_blind_rotation_tmp_bytes": _ops("glwe_blind_rotation"),
    "ggsw_to_ggsw_blind_rotation_tmp_bytes": _ops("ggsw_to_ggsw_blind_rotation"),
    "scalar_to_ggsw_blind_rotation_tmp_bytes": _ops("scalar_to_ggsw_blind_rotation"),
    "glwe_blind_selection_tmp_bytes": _ops("glwe_blind_selection"),
    "glwe_blind_retrieval_tmp_bytes": _ops("glwe_blind_retrieval"),
    "retrieve_tmp_bytes": _ops("retrieve"),
    # poulpy-ckks
    "ckks_encrypt_sk_tmp_bytes": _ops("ckks_encrypt_sk"),
    "ckks_decrypt_tmp_bytes": _ops("ckks_decrypt"),
    "ckks_add_tmp_bytes": _ops("ckks_shift_norm"),
    "ckks_sub_tmp_bytes": _ops("ckks_pt_vec_znx"),
    "ckks_add_pt_const_tmp_bytes": _ops("ckks_shift_norm"),
    "ckks_sub_pt_const_tmp_bytes": _ops("ckks_shift_norm"),
    "ckks_add_pt_vec_znx_tmp_bytes": _ops("ckks_pt_vec_znx"),
    "ckks_sub_pt_vec_znx_tmp_bytes": _ops("ckks_pt_vec_znx"),
    "ckks_add_pt_vec_rnx_tmp_bytes": _ops("ckks_pt_vec_rnx"),
    "ckks_sub_pt_vec_rnx_tmp_bytes": _ops("ckks_pt_vec_rnx"),
    "ckks_neg_tmp_bytes": _ops("ckks_shift"),
    "ckks_mul_pow2_tmp_bytes": _ops("ckks_shift"),
    "ckks_div_pow2_tmp_bytes": _ops("ckks_shift"),
    "ckks_rescale_tmp_bytes": _ops("ckks_shift"),
    "ckks_align_tmp_bytes": _ops("ckks_shift"),
    "ckks_extract_pt_znx_tmp_bytes": _ops("ckks_extract_pt"),
    "ckks_rotate_tmp_bytes": _ops("ckks_rotate"),
    "ckks_conjugate_tmp_bytes": _ops("ckks_rotate"),
    "ckks_mul_tmp_bytes": _ops("ckks_mul", "glwe_tensor_apply", "glwe_tensor_relinearize"),
    "ckks_square_tmp_bytes": _ops("ckks_square", "glwe_tensor_square_apply", "glwe_tensor_relinearize"),
    "ckks_mul_pt_vec_znx_tmp_bytes": _ops("ckks_mul_pt_vec_znx", "glwe_mul_plain"),
    "ckks_mul_pt_vec_rnx_tmp_bytes": _ops("ckks_mul_pt_vec_rnx", "glwe_mul_plain"),
    "ckks_mul_pt_const_tmp_bytes": _ops("ckks_mul_pt_const", "glwe_mul_const"),
    "ckks_mul_add_ct_tmp_bytes": _ops("ckks_composite_ct"),
    "ckks_mul_sub_ct_tmp_bytes": _ops("ckks_composite_ct"),
    "ckks_mul_add_pt_vec_znx_tmp_bytes": _ops("ckks_composite_pt_vec_znx"),
    "ckks_mul_sub_pt_vec_znx_tmp_bytes": _ops("ckks_composite_pt_vec_znx"),
    "ckks_dot_product_pt_vec_znx_tmp_bytes": _ops("ckks_composite_pt_vec_znx"),
    "ckks_mul_add_pt_vec_rnx_tmp_bytes": _ops("ckks_composite_pt_vec_rnx"),
    "ckks_mul_sub_pt_vec_rnx_tmp_bytes": _ops("ckks_composite_pt_vec_rnx"),
    "ckks_dot_product_pt_vec_rnx_tmp_bytes": _ops("ckks_composite_pt_vec_rnx"),
    "ckks_mul_add_pt_const_tmp_bytes": _ops("ckks_composite_pt_const"),
    "ckks_mul_sub_pt_const_tmp_bytes": _ops("ckks_composite_pt_const"),
    "ckks_dot_product_pt_const_tmp_bytes": _ops("ckks_composite_pt_const"),
    "ckks_add_many_tmp_bytes": ("alias", "ckks_add_tmp_bytes"),
    "ckks_mul_many_tmp_bytes": _ops("ckks_mul_many"),
    "ckks_dot_product_ct_tmp_bytes": _ops("ckks_dot_product_ct"),
    "ckks_all_ops_tmp_bytes": _ops("ckks_all_ops"),
    "ckks_all_ops_with_atk_tmp_bytes": _ops("ckks_all_ops_with_atk"),
}


def coverage(repo):
    """(report dict, problems) from the queries found in the sources and COVERS"""
    import importlib.util
    import os
    here = os.path.dirname(os.path.dirname(os.path.abspath(__file__)))
    spec = importlib.util.spec_from_file_location("list_tmp_bytes", os.path.join(here, "tools", "list_tmp_bytes.py"))
    mod = importlib.util.module_from_spec(spec)
    spec.loader.exec_module(mod)
    found = mod.scan(repo)
    problems = []
    rep = {"total": len(found), "modelled": 0, "aliases": {}, "internal": {}, "remainder": {}, "unmodelled": [], "stale": []}
    for q in sorted(found):
        c = COVERS.get(q)
        if c is None:
            rep["unmodelled"].append(q)
            continue
        if c[0] == "ops":
            missing = [o for o in c[1] if o not in OPS]
            if missing:
                problems.append(f"COVERS[{q}] names unknown operations {missing}")
            rep["modelled"] += 1
        elif c[0] == "alias":
            if c[1] not in COVERS or COVERS[c[1]][0] not in ("ops", "internal"):
                problems.append(f"COVERS[{q}] is an alias of {c[1]}, which is not modelled")
            rep["aliases"][q] = c[1]
        elif c[0] == "internal":
            rep["internal"][q] = {"tied_through": c[1], "why": c[2]}
            rep["modelled"] += 1
        elif c[0] == "remainder":
            rep["remainder"][q] = c[1]
    rep["stale"] = sorted(q for q in COVERS if q not in found)
    rep["distinct_after_aliases"] = rep["total"] - len(rep["aliases"])
    return rep, problems


USES_VMP = {o for o in OPS if o.startswith("vmp_") or any(w in o for w in ("keyswitch", "external_product", "automorphism", "trace", "cmux", "bdd", "from_lwe", "from_glwe", "ggsw_from", "expand", "pack", "relinearize", "cswap"))}


AUTO_FUSED = ["glwe_automorphism_add", "glwe_automorphism_sub", "glwe_automorphism_sub_negate"]
# regression corpus: shapes found by searching the model, replayed on the implementation on every run
CORPUS = []
for _op in AUTO_FUSED:
    # NTT120, cross radix, tiny converted input: big-normalize (48N) does not fit next to a_conv
    CORPUS.append((_op, NTT, 16, dict(krin=1, krout=1, ksize=6, kb2k=13, dnum=1, dsize=1, rank=1, size=4, b2k=7, arank=1, asize=1, ab2k=7)))
    CORPUS.append((_op + "_assign", NTT, 64, dict(krin=1, krout=1, ksize=6, kb2k=17, dnum=4, dsize=1, rank=1, size=1, b2k=13)))
    # dsize = 3: res_dft is not zeroed, its last limb is accumulated into -> result depends on scratch contents
    CORPUS.append((_op, ALL, 16, dict(krin=1, krout=1, ksize=7, kb2k=17, dnum=2, dsize=3, rank=1, size=4, b2k=17, arank=1, asize=6, ab2k=17)))
    CORPUS.append((_op + "_assign", ALL, 16, dict(krin=1, krout=1, ksize=7, kb2k=17, dnum=2, dsize=3, rank=1, size=4, b2k=17)))
CORPUS.append(("glwe_trace_assign", ALL, 16, dict(krin=1, krout=1, ksize=7, kb2k=17, dnum=2, dsize=3, rank=1, size=4, b2k=17, iters=2)))
CORPUS.append(("glwe_trace", ALL, 16, dict(krin=1, krout=1, ksize=3, kb2k=17, dnum=2, dsize=1, rank=1, size=2, b2k=17, arank=1, asize=2, ab2k=17, iters=4)))
CORPUS.append(("cmux", ALL, 8, dict(krin=1, krout=1, ksize=7, kb2k=7, dnum=2, dsize=3, rank=1, size=4, b2k=7)))
CORPUS.append(("glwe_decrypt", NTT, 8, dict(size=1, b2k=17, rank=1)))
CORPUS.append(("glwe_encrypt_pk", NTT, 64, dict(size=1, b2k=7, rank=2, pksize=1)))
CORPUS.append(("lwe_encrypt_sk", ALL, 16, dict(size=4, b2k=17, nlwe=5)))      # the round-0 reproduction: 416-byte window
CORPUS.append(("lwe_decrypt", ALL, 16, dict(size=6, b2k=13, nlwe=3)))
CORPUS.append(("split_mut", ALL, 8, dict(cnt=2, len=320144)))                   # the bin-fhe per-thread size reported by slice C20


# operations whose result is a GGSW (size > dsize) although their shape has no `rdnum`
GGSW_RESULT = {"ggsw_to_ggsw_blind_rotation", "scalar_to_ggsw_blind_rotation", "glwe_blind_rotation", "glwe_blind_selection", "retrieve"}
# operations with a costly set-up (key generation): fewer shapes
HEAVY = {"circuit_bootstrapping_execute", "circuit_bootstrapping_key_encrypt_sk", "circuit_bootstrapping_key_prepare", "bdd_key_encrypt_sk",
         "prepare_bdd_key", "fhe_uint_prepare", "bdd_2w_to_1w", "execute_bdd", "blind_rotation_execute", "blind_rotation_key_prepare"}


# ---- the poulpy-ckks evaluator in exact windows (reference back ends: `CKKSImpl`).  One entry per query class; `v` selects
# the API call.  Parameter families of C16's scenario grid: base2k 17 / 19 (FFT64) and 52 (NTT120), 3..9 limbs, operands
# with unequal metadata, destinations narrower than the operands.  `size` (= `asize`) is the layout handed to the query:
# the largest ciphertext of the parameter set, as in the library's own tests and examples; `dsz`, `asz`, `bsz` are the
# limb counts of the destination and of the operands of the call.
CKKS_VARIANTS = {
    "ckks_shift_norm": ["add_into", "add_assign", "add_pt_const_rnx_into", "sub_pt_const_rnx_into", "add_pt_const_znx_into", "add_many"],
    "ckks_pt_vec_znx": ["sub_into", "sub_assign", "add_pt_vec_znx_into", "sub_pt_vec_znx_into", "add_pt_vec_znx_assign"],
    "ckks_pt_vec_rnx": ["add_pt_vec_rnx_into", "sub_pt_vec_rnx_into", "add_pt_vec_rnx_assign"],
    "ckks_shift": ["neg_into", "mul_pow2_into", "mul_pow2_assign", "div_pow2_into", "rescale_into", "rescale_assign", "align_assign"],
    "ckks_rotate": ["rotate_into", "rotate_assign", "conjugate_into", "conjugate_assign"],
    "ckks_extract_pt": ["-"],
    "ckks_encrypt_sk": ["-"],
    "ckks_decrypt": ["-"],
    "ckks_mul_pt_const": ["rnx_into", "rnx_assign"],
    "ckks_mul": ["mul_into", "mul_assign"],
    "ckks_square": ["square_into", "square_assign"],
    "ckks_mul_pt_vec_znx": ["into", "assign"],
    "ckks_mul_pt_vec_rnx": ["into", "assign"],
    "ckks_composite_ct": ["mul_add", "mul_sub"],
    "ckks_composite_pt_vec_znx": ["mul_add", "mul_sub", "dot"],
    "ckks_composite_pt_vec_rnx": ["mul_add", "mul_sub", "dot"],
    "ckks_composite_pt_const": ["mul_add", "mul_sub", "dot"],
    "ckks_mul_many": ["-"],
    "ckks_dot_product_ct": ["-"],
    "ckks_all_ops": ["-"],
    "ckks_all_ops_with_atk": ["-"],
}
CKKS_TENSOR = {"ckks_mul", "ckks_square", "ckks_composite_ct", "ckks_mul_many", "ckks_dot_product_ct", "ckks_all_ops", "ckks_all_ops_with_atk"}


def ckks_case(op, be, r, i):
    """(n, shape) of the i-th exact-window case of a CKKS entry"""
    ntt = fam(be) == "ntt120"
    q = 52 if ntt else r.choice([17, 19])
    # FFT64: N >= 8 (a + b) limbs so that the pairwise buffer of the tensor products is covered (see PAIRWISE_DELEGATE_KEY)
    n = r.choice([16, 32, 64]) if (ntt or op not in CKKS_TENSOR) else 256
    v = CKKS_VARIANTS[op][(i // 2) % len(CKKS_VARIANTS[op])]      # i % 2 selects the back end
    big = r.range(3, 9)                                   # limbs of the largest ciphertext = the layout handed to the query
    if ntt and op in CKKS_TENSOR:
        big = r.range(3, 6)
    lo = max(3 if q >= 30 else 5, big - 3)
    lo = min(lo, big)
    sizes = [r.range(lo, big) for _ in range(3)]
    cls = r.below(4)
    if cls == 0:
        sizes = [big, big, big]
    elif cls == 1:                                        # narrow destination
        sizes[0] = lo
        sizes[1] = big
    else:
        sizes[r.below(3)] = big
    dsz, asz, bsz = sizes
    dl = r.range(4, min(30, q))

    def meta(sz):
        cap = sz * q
        d = dl if (r.chance(3, 4) or op == "ckks_mul_many") else r.range(4, min(30, q))      # mul_many: one common log_delta
        b = r.range(min(cap - d, 3 * d), cap - d)
        if r.chance(1, 3):
            b = cap - d
        return d, b
    (dd, db), (ad, ab), (bd, bb) = meta(dsz), meta(asz), meta(bsz)
    src_b = db if v.endswith("assign") else ab
    pd = r.range(2, min(30, max(2, src_b)))
    pb = r.range(0, q)
    if op in ("ckks_pt_vec_znx", "ckks_pt_vec_rnx", "ckks_shift_norm", "ckks_all_ops", "ckks_all_ops_with_atk", "ckks_encrypt_sk",
              "ckks_decrypt", "ckks_extract_pt"):
        # a plaintext that can be aligned: log_budget + log_delta >= max_k
        pd = r.range(2, 40)
        base = max(q, (min(src_b, ab, db) + pd) // q * q)
        pb = max(0, base - pd - r.range(0, q - 1)) if base > pd else 0
    if op in ("ckks_decrypt", "ckks_extract_pt"):
        pd, pb = dd, r.range(0, db)
    if op == "ckks_encrypt_sk":
        pd, pb = dd, min(db, r.range(0, q))
    ptk = max(1, pd + pb)
    bsize = -(-ptk // q)
    d = {"rank": 1, "size": big, "b2k": q, "arank": 1, "asize": big, "ab2k": q, "v": v, "dsz": dsz, "asz": asz, "bsz": bsz,
         "dd": dd, "db": db, "ad": ad, "ab": ab, "bd": bd, "bb": bb, "pd": pd, "pb": pb, "ptk": ptk, "bsize": bsize,
         "cre": 1 if i % 3 != 1 else 0, "cim": 1 if i % 3 != 2 else 0}
    d["bits"] = r.choice([0, 1, 3, r.range(0, 2 * q), q, dl])
    # the operands of the product as the call sees them
    if v in ("mul_assign",):
        (xd, xb, xs), (yd, yb, ys) = (dd, db, dsz), (ad, ab, asz)
    elif v == "square_assign":
        (xd, xb, xs), (yd, yb, ys) = (dd, db, dsz), (dd, db, dsz)
    elif op == "ckks_square" or v == "square_into":
        (xd, xb, xs), (yd, yb, ys) = (ad, ab, asz), (ad, ab, asz)
    elif v == "assign" or v == "rnx_assign":
        (xd, xb, xs), (yd, yb, ys) = (dd, db, dsz), (pd, pb, bsize)
    elif op in ("ckks_mul_pt_vec_znx", "ckks_mul_pt_vec_rnx", "ckks_mul_pt_const", "ckks_composite_pt_vec_znx", "ckks_composite_pt_vec_rnx",
                "ckks_composite_pt_const"):
        (xd, xb, xs), (yd, yb, ys) = (ad, ab, asz), (pd, pb, bsize)
    else:
        (xd, xb, xs), (yd, yb, ys) = (ad, ab, asz), (bd, bb, bsz)
    ct_ct = op in CKKS_TENSOR
    rlb = (min(xb, yb) - max(xd, yd)) if ct_ct else (xb - yd)
    rld = min(xd, yd) if ct_ct else xd
    roff = max(0, rlb + rld - dsz * q)
    d["ea"] = max(1, min(xs, -(-(xd + xb) // q)))
    d["eb"] = max(1, min(ys, -(-(yd + yb) // q))) if ct_ct else bsize
    d["off"] = max(0, (max(xb, yb) + max(xd, yd) + roff) if ct_ct else (bsize * q + roff))
    if op in CKKS_TENSOR:
        tsz = big + 1
        d.update({"tsize": tsz, "tb2k": q, "tdnum": r.choice([tsz, tsz, r.range(1, tsz)]), "tdsize": 1})
        d["cnt"] = r.range(1, 5)
        d["levels"] = 0 if d["cnt"] <= 2 else (1 if d["cnt"] <= 4 else 2)
    else:
        d["cnt"] = r.range(1, 4)
    if op in ("ckks_rotate", "ckks_all_ops_with_atk"):
        ksz = big + 1
        d.update({"krin": 1, "krout": 1, "ksize": ksz, "kb2k": q, "dnum": r.choice([ksz, r.range(1, ksz)]), "dsize": 1})
    return n, d


def fixup(op, d):
    """dependent fields after the boundary class changed the sizes: effective limb counts never exceed their operand"""
    if "ea" in d:
        if op == "glwe_mul_plain_assign":
            d["eb"] = max(1, min(d["eb"], d["size"]))
            d["ea"] = max(1, min(d["ea"], d["bsize"]))
        elif op.startswith("ckks_mul") and "asize" not in d or op in ("ckks_square", "ckks_composite_ct", "ckks_dot_product_ct", "ckks_all_ops",
                                                                      "ckks_all_ops_with_atk"):
            d["ea"] = max(1, min(d["ea"], d["size"]))
            d["eb"] = max(1, min(d["eb"], d["size"]))
        else:
            d["ea"] = max(1, min(d["ea"], d["asize"]))
            d["eb"] = max(1, min(d["eb"], d["bsize"]))
        if "ptk" in d and "bsize" in d:
            d["ptk"] = d["bsize"] * d["b2k"]
        # unchecked precondition of the products: the offset lies inside the product (cnv_offset_hi <= a + b limbs);
        # beyond it `a_size + b_size - cnv_offset_hi` wraps
        rad = d.get("ab2k", d["b2k"]) if op != "glwe_mul_plain_assign" else d["b2k"]
        lim = (2 * d["ea"] if op == "glwe_tensor_square_apply" else d["ea"] + d["eb"])
        d["off"] = min(d["off"], (lim + 1) * rad - 1)
    if "bdnum" in d:
        d["bdnum"] = min(d["bdnum"], d["bsize"])
    if "rdnum" in d and "size" in d and "block" in d:
        d["rdnum"] = max(1, min(d["rdnum"], d["size"], 56 // d["b2k"]))
    return d


# the Module delegate of the pairwise convolution query forwards its first two arguments swapped (the pinned test suite's own
# call compensates for it, so it cannot be corrected): the tensor formulas reserve the pairwise buffer for min(a, b) result
# limbs; on FFT64 with N <= 32 nothing else in their maximum covers the difference
PAIRWISE_DELEGATE_KEY = "poulpy-hal/src/delegates/convolution.rs:cnv_pairwise_apply_dft_tmp_bytes:first-two-arguments-forwarded-swapped"
PAIRWISE_DELEGATE_OPS = {"glwe_tensor_apply", "glwe_tensor_apply_add_assign", "glwe_tensor_square_apply"}


def fail_key(op, n, be=""):
    """stable key of an exact-window failure: per operation for realistic rings; one class for N < 8"""
    if op == "split_mut":
        return "split_mut:len%64!=0"
    if op in PAIRWISE_DELEGATE_OPS and 8 <= n <= 32 and fam(be) == "fft64":
        return PAIRWISE_DELEGATE_KEY
    if op == "cnv_pairwise_apply_dft":      # the query itself, called as documented (cnv_offset, res_size, ..): any ring, both families
        return PAIRWISE_DELEGATE_KEY
    return f"{op}:exact-window" if n >= 8 else "ring-degree-below-8:exact-window"


def kvs(d):
    return " ".join(f"{k}={v}" for k, v in d.items())


def parse(line):
    """'id k=v k=v' -> dict (id under '_id'); a bare word answer under '_word'."""
    t = line.split()
    d = {"_id": t[0] if t else ""}
    for x in t[1:]:
        if "=" in x:
            k, v = x.split("=", 1)
            d[k] = v
        else:
            d["_word"] = x
    return d


def evs(s):
    if s in ("-", "", None):
        return []
    return [tuple(int(x) for x in e.split(":")) for e in s.split(",")]


def run(ctx):
    rng = ctx.rng
    quick = ctx.tier == "quick"
    ctx.trusted += [
        "Model/Scratch.lean `take` as the reading of take_slice_aligned, and the per-operation AllocTrees of Model/ScratchOps.lean as the "
        "reading of the operations' take sequences (tied by outcome class, take trace and exact-requirement runs against the real code)",
        "the verif-hooks take recorder of poulpy-cpu-ref (thread-local; takes made on worker threads are not seen)",
    ]
    ctx.assumptions += [
        "scratch windows handed to operations start at any address; `available()` is what the companion query is compared with",
        "the AVX back ends delegate every *_tmp_bytes and scratch-taking default to poulpy-cpu-ref (checked by running all four)",
    ]
    broken = []

    # ---- gate 1: proofs
    ok, failures = ctx.proof_gate(["Poulpy.Props.C12"])
    broken += failures

    binp = ctx.build_harness()
    drv = ctx.driver()
    if binp is None:
        broken.append("harness build failed: " + getattr(ctx, "build_error", "")[-600:])
    if drv is None:
        broken.append("model driver does not build: " + getattr(ctx, "driver_error", "")[-600:])
    if binp is None or drv is None:
        ctx.violation("C12 machinery does not build", {"broken": broken[:10]}, False)
        return ctx.finish(rule="n/a")

    # ---- coverage accounting: every *_tmp_bytes query of the six crates against COVERS
    cov, cov_problems = coverage(common.REPO)
    broken += cov_problems
    ctx.cov["tmp_bytes_queries"] = cov
    ctx.log(f"tmp_bytes queries: modelled {cov['modelled']}/{cov['total']} (+{len(cov['aliases'])} pure aliases, "
            f"{len(cov['remainder'])} justified remainder), unmodelled: {cov['unmodelled'] or 'none'}")
    if cov["unmodelled"]:
        ctx.violation("scratch-size queries of the library that C12 does not model: " + ", ".join(cov["unmodelled"]),
                      {"unmodelled": cov["unmodelled"], "how": "add the query to COVERS in vlib/c12.py with the operations that model it"},
                      False, key="tmp-bytes-query:unmodelled")
    if cov["stale"]:
        ctx.log("COVERS entries without a query in the sources (renamed or removed): " + ", ".join(cov["stale"]))

    # ---- compiled circuit widths (per-thread size of execute_bdd depends on max_state_size)
    rc, out, err = common.run([binp, "circuits"])
    from .c13 import parse_dump
    for name, tab in parse_dump(out).items():
        BDD_STATE[name] = max([w for (w, _) in tab["bits"][:tab["out"]]] or [0])
    ctx.cov["bdd_max_state_size"] = dict(BDD_STATE)

    # ---- case generation
    n_shapes = 20 if quick else 150
    n_mis = 3 if quick else 8
    n_big = 30 if quick else 400
    small_n = [2, 4, 8, 16, 32]
    cases = []      # dict(op, be, n, shape, mis, win(None|int), kind)
    grid_cells = {}  # op -> cell -> families generated
    grid_paths = {}  # op -> initialisation path of the scratch temporaries -> families
    for (op, bes, n, shape) in CORPUS:
        for be in bes:
            for m in (0, 24):
                cases.append(dict(op=op, be=be, n=n, shape=dict(shape), mis=m, win=None, kind="exact", corpus=True))
            cases.append(dict(op=op, be=be, n=n, shape=dict(shape), mis=24, win="req", kind="req", corpus=True))
    for op, (gen, bes, runnable, nmin) in OPS.items():
        r = rng.fork()
        # formula equality on large shapes (no execution)
        for i in range(n_big):
            be = bes[i % len(bes)]
            n = 1 << r.range(3, 16)
            cases.append(dict(op=op, be=be, n=n, shape=gen(r, True), mis=0, win=None, kind="tb"))
        grid = GRID.get(op)
        cnt = n_shapes if op not in HEAVY else max(len(bes), n_shapes // 5)
        if op in CKKS_VARIANTS:                       # every variant at least twice on each family
            cnt = max(cnt, 4 * len(CKKS_VARIANTS[op]))
        if grid is not None:                          # every cell of the grid on both families (quick) / all four back ends
            cnt = len(grid.cells) * (2 if quick else 4)
        for i in range(cnt):
            be = bes[i % len(bes)] if grid is None else GRID_BES[i % 4]
            ns = [x for x in small_n if x >= nmin and (x >= 2 or fam(be) == "ntt120")]
            if fam(be) == "fft64" and (op in USES_VMP or op.startswith("glwe_mul_const")):
                ns = [x for x in ns if x >= 8]        # the FFT64 vmp kernels assert n >= 8
            # two thirds of the shapes at N >= 8, the rest at N < 8 (sub-64-byte limbs)
            n = r.choice([x for x in ns if x >= 8]) if i % 3 != 2 else r.choice([x for x in ns if x < 8] or ns)
            shape = gen(r, False)
            if op in CKKS_VARIANTS:                   # the evaluator: exact windows only (the class tree over-approximates the variants)
                n, shape = ckks_case(op, be, r, i)
                # thorough: all 8 misalignments 0, 8, …, 56
                mis_list = [0] + ([8 * r.range(1, 7) for _ in range(n_mis - 1)] if quick else [8 * j for j in range(1, 8)])
                for m in mis_list:
                    cases.append(dict(op=op, be=be, n=n, shape=shape, mis=m, win=None, kind="exact"))
                continue
            if op == "glwe_pack":
                logn = n.bit_length() - 1
                shape["gap"] = r.range(0, logn)
                shape["rounds"] = logn - shape["gap"]
            if op == "bdd_2w_to_1w":                  # packing of the 32 output bits: log_gap = log_n - 5
                shape["rounds"] = 5
                shape["iters"] = n.bit_length() - 1 - 5
            if grid is not None:
                grid_cells.setdefault(op, {}).setdefault(shape["cell"], set()).add(fam(be))
                grid_paths.setdefault(op, {}).setdefault(shape["path"], set()).add(fam(be))
            elif i < len(bes):                        # boundary class: single-limb operands, once per back end
                lo = 2 if ("rdnum" in shape or op in GGSW_RESULT) else 1      # matrix operands need size > dsize
                for f in ("size", "asize", "pksize", "bsize", "lsize", "alsize"):
                    if f in shape:
                        shape[f] = 2 if (f == "bsize" and "bdnum" in shape) else lo
                if "rdnum" in shape:
                    shape["rdnum"] = shape["adnum"] = 1 if "adnum" in shape else shape["rdnum"]
                n = max(n, 8) if i % 2 == 0 else n
            fixup(op, shape)
            if not runnable:
                cases.append(dict(op=op, be=be, n=n, shape=shape, mis=0, win=None, kind="tb"))
                continue
            mis_list = [0] + [8 * r.range(1, 7) for _ in range(n_mis - 1)]
            for m in mis_list:
                cases.append(dict(op=op, be=be, n=n, shape=shape, mis=m, win=None, kind="exact"))
            cases.append(dict(op=op, be=be, n=n, shape=shape, mis=mis_list[-1], win="req", kind="req"))
            cases.append(dict(op=op, be=be, n=n, shape=shape, mis=mis_list[-1], win="req-8", kind="req-8"))

    # ---- the shift / normalise grid: every cell generated on both families
    ctx.cov["shift_normalise_grid"] = {op: {cell: sorted(f) for cell, f in sorted(cs.items())} for op, cs in sorted(grid_cells.items())}
    ctx.cov["scratch_initialisation_paths"] = {op: {p_: sorted(f) for p_, f in sorted(ps.items())} for op, ps in sorted(grid_paths.items())}
    for op, g in GRID.items():
        for br in BRANCHES[g.kind]:
            br = br.replace(":", "_").replace("+", "_")
            if grid_paths.get(op, {}).get(br, set()) != {"fft64", "ntt120"}:
                broken.append(f"initialisation path {br} of {op} not generated on both families")
        for (rel, cls) in g.cells:
            fams = grid_cells.get(op, {}).get(f"{rel}.{cls}", set())
            if fams != {"fft64", "ntt120"}:
                broken.append(f"grid cell {op} {rel}.{cls} generated for {sorted(fams)} only")

    # ---- model pass 1 (exact windows; gives req for the control windows)
    def mline(k, c, win=None):
        s = f"{k} scratch {c['op']} be={fam(c['be'])} n={c['n']} {kvs(c['shape'])} mis={c['mis']}"
        return s + (f" win={win}" if win is not None else "")

    rc, mout, err = ctx.run_lines(drv, [], [mline(k, c) for k, c in enumerate(cases)])
    if rc != 0 or len(mout) != len(cases):
        broken.append(f"model driver failed rc={rc} lines={len(mout)}/{len(cases)} {err[-300:]}")
        ctx.violation("C12 model driver failed", {"broken": broken[:10]}, False)
        return ctx.finish(rule="n/a")
    m1 = [parse(x) for x in mout]
    for c, m in zip(cases, m1):
        if m.get("_word") == "bad-op":
            broken.append(f"model does not know operation {c['op']}")
            c["skip"] = True
            continue
        c["m_tb"], c["m_req"] = int(m["tb"]), int(m["req"])
        if c["win"] == "req":
            c["winb"] = align_off(c["mis"]) + c["m_req"]
        elif c["win"] == "req-8":
            c["winb"] = align_off(c["mis"]) + c["m_req"] - 8 if c["m_req"] >= 8 else None
            if c["winb"] is None:
                c["skip"] = True
        else:
            c["winb"] = None
    cases = [c for c in cases if not c.get("skip")]

    # ---- model pass 2 + implementation
    rc, mout, err = ctx.run_lines(drv, [], [mline(k, c, c["winb"]) for k, c in enumerate(cases)])
    m2 = [parse(x) for x in mout]

    def hline(k, c):
        s = f"{k} {c['op']} be={c['be']} n={c['n']} {kvs(c['shape'])} mis={c['mis']}"
        if c["winb"] is not None:
            s += f" win={c['winb']}"
        if c["kind"] == "tb":
            s += " tbonly=1"
        return s

    rc, hout, err = ctx.run_lines(binp, ["scratch"], [hline(k, c) for k, c in enumerate(cases)], timeout=3000)
    if rc != 0 or len(hout) != len(cases):
        broken.append(f"pvh scratch failed rc={rc} lines={len(hout)}/{len(cases)} {err[-300:]}")
        ctx.violation("C12 harness failed", {"broken": broken[:10]}, False)
        return ctx.finish(rule="n/a")
    h = [parse(x) for x in hout]

    stats = {"tb_equal": 0, "exact_ok": 0, "exact_fail_predicted": 0, "trace_equal": 0, "trace_covered": 0, "req_ok": 0,
             "req_minus_8_fail": 0, "skipped": 0}
    by_op = {}
    failing_ops = {}       # key -> first witness
    failing_ops_all = {}   # key -> operations
    outs = {}              # (op, be, n, shape) -> out hash, must not depend on misalignment
    ckks_acc = {}          # (op, variant, family) -> [accepted shapes, rejected shapes]
    classes = {}
    for k, (c, m, r) in enumerate(zip(cases, m2, h)):
        op = c["op"]
        word = r.get("_word")
        if word in ("skip",):
            stats["skipped"] += 1
            if op in CKKS_VARIANTS and c["mis"] == 0:        # the evaluator answered Err: the scratch is irrelevant
                ckks_acc.setdefault((op, c["shape"]["v"], fam(c["be"])), [0, 0])[1] += 1
            continue
        if word in ("bad-op", "setup-panic") or "tb" not in r:
            broken.append(f"harness cannot run case: {hline(k, c)} -> {word}")
            continue
        shape_cls = (c["n"] < 8, c["shape"].get("size", 0) % 8 == 0, c["shape"].get("dsize", 1) > 1,
                     c["shape"].get("ab2k", c["shape"].get("b2k")) != c["shape"].get("kb2k", c["shape"].get("b2k")),
                     c["shape"].get("rank", 1), c["shape"].get("cell", ""))
        # gate 2: formula equality
        if int(r["tb"]) != int(m["tb"]):
            ctx.disagreements += 1
            if len(broken) < 30:
                broken.append(f"formula: {hline(k, c)} rust tmp_bytes={r['tb']} lean={m['tb']}")
        else:
            stats["tb_equal"] += 1
        if c["kind"] == "tb":
            ctx.count_case((op, fam(c["be"]), "tb", c["n"].bit_length(), shape_cls))
            continue
        mrun, rrun = m["run"], r["run"]
        ctx.count_case((op, c["be"], c["kind"], shape_cls, rrun, m["al"]), nontrivial=int(m["tb"]) > 0 or op == "vec_znx_idft_apply")
        d = by_op.setdefault(op, {"cases": 0, "ok": 0, "take": 0, "need": 0, "other": 0})
        d["cases"] += 1
        d[rrun] = d.get(rrun, 0) + 1
        classes[(m["al"], rrun)] = classes.get((m["al"], rrun), 0) + 1
        # gate 3: outcome class equal to the model's
        if mrun != rrun:
            ctx.disagreements += 1
            if len(broken) < 30:
                broken.append(f"outcome: {hline(k, c)} implementation run={rrun} model run={mrun} (tb={r['tb']} req={m['req']})")
        if r.get("canary") != "1":
            ctx.oracle_failures += 1
            ctx.violation(f"{op}: write outside the scratch window", {"case": hline(k, c), "implementation": hout[k]}, True,
                          key=f"{op}:stray-write")
        if rrun == "ok":
            if r.get("same") != "1":
                ctx.oracle_failures += 1
                dep = by_op.setdefault(op, {}).setdefault("scratch_dependent", 0)
                by_op[op]["scratch_dependent"] = dep + 1
                if dep == 0:
                    ctx.violation(f"{op}: result depends on the previous contents of the scratch",
                                  {"witness": {"case": hline(k, c), "implementation": hout[k],
                                               "rerun": f"printf '{hline(k, c)}\\n' | harness/target/release/pvh scratch"}},
                                  True, key=f"{op}:scratch-dependent")
            if c["kind"] == "exact":
                key = (op, c["be"], c["n"], kvs(c["shape"]))
                if key in outs and outs[key] != r["out"]:
                    ctx.oracle_failures += 1
                    ctx.violation(f"{op}: result depends on the misalignment of the scratch window",
                                  {"case": hline(k, c), "implementation": hout[k]}, True, key=f"{op}:misalignment-dependent")
                outs.setdefault(key, r["out"])
            # gate 4: trace covered by the model's layout (the evaluator's entries are classes of calls whose tree is the
            # largest member's, with the operands' effective sizes of the first term only: counted, not required)
            if op in CKKS_VARIANTS:
                if c["mis"] == 0:
                    ckks_acc.setdefault((op, c["shape"]["v"], fam(c["be"])), [0, 0])[0] += 1
                stats["ckks_exact_ok"] = stats.get("ckks_exact_ok", 0) + 1
                if mrun == "ok" and int(r["peak"]) <= int(m["peak"]):
                    stats["ckks_trace_covered"] = stats.get("ckks_trace_covered", 0) + 1
            elif mrun == "ok":
                if int(r["peak"]) <= int(m["peak"]):
                    stats["trace_covered"] += 1
                else:
                    ctx.disagreements += 1
                    if len(broken) < 30:
                        broken.append(f"trace: {hline(k, c)} observed peak {r['peak']} > model peak {m['peak']}")
                if set(evs(r["ev"])) == set(evs(m["ev"])):
                    stats["trace_equal"] += 1
        if c["kind"] == "exact":
            if rrun == "ok":
                stats["exact_ok"] += 1
            elif rrun == "other":
                ctx.disagreements += 1
                if len(broken) < 30:
                    broken.append(f"harness: {hline(k, c)} panicked outside the scratch code (class other)")
            else:
                if mrun == rrun:
                    stats["exact_fail_predicted"] += 1
                # the property is violated by the implementation on this input: independent check that
                # the panic is a genuine lack of space (last observed take does not fit its window)
                ev = evs(r["ev"])
                genuine = True
                if rrun == "take" and ev:
                    off, ln, rq = ev[-1]
                    genuine = align_off(c["mis"] + off) + rq > ln
                fkey = fail_key(op, c["n"], c["be"])
                failing_ops_all.setdefault(fkey, set()).add(op)
                if fkey not in failing_ops:
                    failing_ops[fkey] = {"case": hline(k, c), "implementation": hout[k], "model": mout[k],
                                         "tmp_bytes": int(r["tb"]), "required": int(m["req"]), "genuine_lack_of_space": genuine,
                                         "rerun": f"printf '{hline(k, c)}\\n' | harness/target/release/pvh scratch"}
                ctx.oracle_failures += 1
        elif c["kind"] == "req":
            if rrun == "ok":
                stats["req_ok"] += 1
        elif c["kind"] == "req-8":
            if rrun != "ok":
                stats["req_minus_8_fail"] += 1
        if len(ctx.samples) < 10 and k % 97 == 0:
            ctx.samples.append({"case": hline(k, c), "implementation": hout[k], "model": mout[k]})

    for fkey, w in sorted(failing_ops.items()):
        who = ", ".join(sorted(failing_ops_all[fkey]))
        w["operations"] = sorted(failing_ops_all[fkey])
        ctx.violation(f"{who}: panics in a scratch window of exactly its tmp_bytes ({w['tmp_bytes']} < required {w['required']})",
                      {"witness": w}, True, key=fkey)
    # ---- contract probe (informational): the evaluator's queries take one ciphertext layout and hand it to the inner queries as
    # destination AND operands; the library's tests and examples pass the parameter set's largest layout.  Evaluated at a
    # narrower destination's own layout they do not cover wider operands: counted here, with one witness per entry.
    pr = rng.fork()
    plines, pmeta = [], []
    for op, v in (("ckks_mul", 0), ("ckks_square", 0), ("ckks_rotate", 0), ("ckks_composite_ct", 0), ("ckks_mul_pt_vec_znx", 0)):
        for be in REF:
            got = 0
            for _try in range(200):
                n_, sh = ckks_case(op, be, pr, 2 * v)
                if sh["dsz"] >= sh["size"] or sh["asz"] <= sh["dsz"]:
                    continue
                sh["size"] = sh["dsz"]
                # the plaintext products' queries do have an operand parameter: (destination layout, operand layout)
                sh["asize"] = sh["asz"] if op == "ckks_mul_pt_vec_znx" else sh["dsz"]
                plines.append(f"{len(plines)} {op} be={be} n={n_} {kvs(sh)} mis=0")
                pmeta.append(op)
                got += 1
                if got == (3 if quick else 12):
                    break
    rc, pout, err = ctx.run_lines(binp, ["scratch"], plines, timeout=600)
    probe = {}
    for line, o, op in zip(plines, pout, pmeta):
        r = parse(o)
        w = r.get("_word") or r.get("run", "?")
        d = probe.setdefault(op, {"ok": 0, "panic": 0, "rejected": 0})
        d["rejected" if w == "skip" else ("ok" if w == "ok" else "panic")] += 1
        if w in ("need", "take") and "witness" not in d:
            d["witness"] = f"{line} -> {o[:120]}"
    ctx.cov["ckks_query_at_destination_layout_with_wider_operands"] = probe

    # ---- the evaluator: every variant of every entry accepted (and run) on both families; at most half of the shapes rejected
    ctx.cov["ckks_accepted_rejected"] = {f"{o}:{v}:{f}": a for (o, v, f), a in sorted(ckks_acc.items())}
    for op, vs in CKKS_VARIANTS.items():
        acc = sum(a[0] for (o, _, _), a in ckks_acc.items() if o == op)
        rej = sum(a[1] for (o, _, _), a in ckks_acc.items() if o == op)
        if acc < rej:
            broken.append(f"{op}: the evaluator rejects {rej} of {acc + rej} generated calls")
        for v in vs:
            for f in ("fft64", "ntt120"):
                if ckks_acc.get((op, v, f), [0, 0])[0] == 0:
                    broken.append(f"{op} v={v}: no accepted call ran on {f}")
    ctx.cov["per_operation"] = by_op
    ctx.cov["stats"] = stats
    ctx.cov["failing_keys"] = {k: sorted(v) for k, v in sorted(failing_ops_all.items())}
    ctx.cov["classes_aligned_x_outcome"] = {f"aligned={a} run={b}": v for (a, b), v in sorted(classes.items())}
    ctx.cov["operations_modelled"] = len(OPS)
    ctx.cov["operations_formula_only"] = sorted(o for o, v in OPS.items() if not v[2])
    ctx.log("stats", stats)
    ctx.log("failing keys:", ", ".join(sorted(failing_ops.keys())))
    if broken:
        ctx.log("broken:", *broken[:8])
        ctx.violation("C12 obligation or correspondence no longer checks", {"broken": broken[:30]}, False)
    return ctx.finish(rule="case = (operation, back end, N, shape, misalignment, window kind in {tmp_bytes-only, exact, req, req-8}); shapes: N in "
                           "{2,4,8,16,32} (one third below 8), sizes 1..7, ranks 0..2, dsize 1..3, radices {7,13,17,19}, cross-radix one third; "
                           "large shapes N=2^3..2^16 for formula equality; distinct = (op, back end, kind, (N<8, 8|size, dsize>1, cross-radix, rank), "
                           "outcome class, model aligned flag); non-trivial = tmp_bytes > 0")
