"""C10 — all back ends give bit-identical results for identical inputs and seeds.

Gate 1 (proof): lake build Poulpy.Props.C10 — AVX lane kernels = reference kernels over BitVec 64/128 for all
        lane inputs and all admissible radices, loop-structure lemmas; bv_decide axioms listed in the evidence.
Gate 2 (model tie): the executable lane/slice model (pdriver `avx kern`) == the real kernels of every back end,
        called through the primitive traits (`pvh avx kern`), on 64-bit boundary values x carries x all radices.
Gate 3 (differential): Ref == AVX on every slice kernel, every HAL operation family, scheme-level programs and
        sampling; FFT64 == NTT120 wherever both are inside their magnitude domain.
Failure search: an independent Python big-integer oracle of the kernels decides which side is wrong on the
        disagreeing lane; a back-end-vs-back-end difference is itself the failing input (re-run with dump=1).
"""
import os
import re

from . import common

M64 = (1 << 64) - 1
M128 = (1 << 128) - 1
I64MIN, I64MAX = -(1 << 63), (1 << 63) - 1
I128MIN, I128MAX = -(1 << 127), (1 << 127) - 1


def w(x, bits=64):
    m = 1 << bits
    x &= m - 1
    return x - m if x >> (bits - 1) else x


# ----------------------------------------------------------------------------- Python oracle (reference semantics,
# release profile: wrapping arithmetic, shift amounts taken modulo the width)
def shl(x, s, bits=64):
    return w(x << (s % bits), bits)


def sar(x, s, bits=64):
    return x >> (s % bits)


def get_digit(b, x, bits=64):
    return sar(shl(x, (bits - b) % (1 << 32), bits), (bits - b) % (1 << 32), bits)


def get_carry(b, x, d, bits=64):
    return sar(w(x - d, bits), b, bits)


def oracle_lane(op, b, lsh, k, ow, x, a, c):
    """(x', c') of the reference kernel `op` on one element, or None if not covered."""
    bl = b if lsh == 0 else b - lsh
    sh = (lambda d: d) if lsh == 0 else (lambda d: shl(d, lsh))

    def mid(v):
        d = get_digit(bl, v)
        cr = get_carry(bl, v, d)
        dpc = w(sh(d) + c)
        x1 = get_digit(b, dpc)
        return x1, w(cr + get_carry(b, dpc, x1))

    def fin(v):
        return get_digit(b, w(sh(get_digit(bl, v)) + c))

    if op == "first_carry_only":
        return x, get_carry(bl, x, get_digit(bl, x))
    if op == "first_assign":
        d = get_digit(bl, x)
        return sh(d), get_carry(bl, x, d)
    if op == "first":
        d = get_digit(bl, a)
        return (sh(d) if ow else w(x + sh(d))), get_carry(bl, a, d)
    if op == "middle_carry_only":
        return x, mid(x)[1]
    if op == "middle_assign":
        return mid(x)
    if op == "middle":
        x1, c1 = mid(a)
        return (x1 if ow else w(x + x1)), c1
    if op == "middle_sub":
        x1, c1 = mid(a)
        return w(x - x1), c1
    if op == "final_assign":
        return fin(x), c
    if op == "final":
        return (fin(a) if ow else w(x + fin(a))), c
    if op == "final_sub":
        return w(x - fin(a)), c
    if op == "extract_digit_addmul":
        d = get_digit(b, c)
        return w(x + shl(d, lsh)), get_carry(b, c, d)
    if op == "normalize_digit":
        d = get_digit(b, x)
        return d, w(c + get_carry(b, x, d))
    if op in ("mul_pow2", "mul_pow2_assign", "muladd_pow2"):
        v = x if op == "mul_pow2_assign" else a
        if k == 0:
            r = v
        elif k > 0:
            r = shl(v, k)
        else:
            kk = -k
            sign = sar(v, 63) & 1
            bias = w(shl(1, kk - 1) - sign)
            r = sar(w(v + bias), kk)
        return (w(x + r) if op == "muladd_pow2" else r), c
    if op == "add":
        return w(a + c), c
    if op == "add_assign":
        return w(x + a), c
    if op == "sub":
        return w(a - c), c
    if op == "sub_assign":
        return w(x - a), c
    if op == "sub_negate_assign":
        return w(a - x), c
    if op == "negate":
        return w(-a), c
    if op == "negate_assign":
        return w(-x), c
    return None


# ----------------------------------------------------------------------------- generators
STEP_OPS = [("first_carry_only", None), ("first_assign", None), ("first", 0), ("first", 1), ("middle_carry_only", None),
            ("middle_assign", None), ("middle", 0), ("middle", 1), ("middle_sub", None), ("final_assign", None),
            ("final", 0), ("final", 1), ("final_sub", None)]
USES_A = {"first", "middle", "middle_sub", "final", "final_sub", "add", "add_assign", "sub", "sub_assign",
          "sub_negate_assign", "negate", "mul_pow2", "muladd_pow2"}
WRAP_OPS = ["add", "add_assign", "sub", "sub_assign", "sub_negate_assign", "negate", "negate_assign"]
MUL_OPS = ["mul_pow2", "mul_pow2_assign", "muladd_pow2"]
NFC_OPS = ["nfc_middle", "nfc_middle_assign", "nfc_middle_add", "nfc_middle_sub", "nfc_final_assign", "nfc_final_add",
           "nfc_final_sub"]
BIG_OPS = ["i128_add", "i128_add_assign", "i128_add_small", "i128_add_small_assign", "i128_sub", "i128_sub_assign",
           "i128_sub_negate_assign", "i128_sub_small_a", "i128_sub_small_b", "i128_sub_small_assign",
           "i128_sub_small_negate_assign", "i128_negate", "i128_negate_assign", "i128_neg_from_small", "i128_from_small"]
BIG_SMALL_A = {"i128_add_small_assign", "i128_sub_small_a", "i128_sub_small_assign", "i128_sub_small_negate_assign",
               "i128_neg_from_small", "i128_from_small"}
BIG_SMALL_C = {"i128_add_small", "i128_sub_small_b"}


def boundary64(b):
    h = 1 << (b - 1)
    return [0, 1, -1, w(h), w(-h), w(h - 1), w(-(h - 1)), 1 << 62, -(1 << 62), I64MIN, I64MAX]


def boundary128(b):
    h = 1 << (b - 1)
    return [0, 1, -1, h, -h, h - 1, -(h - 1), 1 << 62, -(1 << 62), 1 << 63, -(1 << 63), (1 << 64) + 1, -(1 << 64),
            1 << 126, I128MIN, I128MAX, I64MIN, I64MAX]


def ints(l):
    return ",".join(str(v) for v in l) if l else "-"


def r64(rng):
    return w(rng.next())


def r128(rng):
    return w((rng.next() << 64) | rng.next(), 128)


def cross(vals, carries, rng, tail, rnd):
    """all (v, c) pairs padded to a multiple of four (main loop lanes) followed by `tail` extra lanes"""
    xs, cs = [], []
    for v in vals:
        for c in carries:
            xs.append(v)
            cs.append(c)
    while len(xs) % 4:
        xs.append(rnd(rng))
        cs.append(rnd(rng))
    for _ in range(tail):
        xs.append(rnd(rng))
        cs.append(rnd(rng))
    return xs, cs


def lsh_choices(b, rng, quick):
    if not quick:
        return list(range(b))
    s = {0}
    if b > 1:
        s.add(rng.range(1, b - 1))
        if rng.chance(1, 3):
            s.add(b - 1)
        if rng.chance(1, 3):
            s.add(1)
    return sorted(s)


def gen_kern(rng, quick):
    """-> list of dicts {line (without id/be), fam, op, adm (Ref==AVX demanded), key, nt}"""
    cases = []
    case_no = 0
    for b in range(1, 64):
        bv = boundary64(b)
        for (op, ow) in STEP_OPS:
            for lsh in lsh_choices(b, rng, quick):
                vals = bv + [r64(rng), r64(rng)]
                car = bv + [r64(rng), r64(rng)]
                xs, cs = cross(vals, car, rng, case_no % 4, r64)
                case_no += 1
                t = [f"op={op}", f"b={b}", f"lsh={lsh}"]
                if ow is not None:
                    t.append(f"ow={ow}")
                if op in USES_A:
                    t += ["x=" + ints([r64(rng) for _ in xs]), "a=" + ints(xs)]
                else:
                    t.append("x=" + ints(xs))
                t.append("c=" + ints(cs))
                cases.append(dict(line=" ".join(t), fam="norm", op=op, adm=True,
                                  key=("kern", op, ow, b, 0 if lsh == 0 else (2 if lsh == b - 1 else 1), len(xs) % 4), nt=True))
        # extract_digit_addmul: base2k = b, lsh over [0, 62]; normalize_digit
        for lsh in sorted({0, rng.range(0, 62), 62} if quick else set(range(63))):
            vals = bv + [r64(rng), r64(rng)]
            xs, cs = cross(vals, [0, 1, -1, I64MAX, I64MIN, r64(rng)], rng, case_no % 4, r64)
            case_no += 1
            cases.append(dict(line=f"op=extract_digit_addmul b={b} lsh={lsh} x={ints(cs)} c={ints(xs)}", fam="norm",
                              op="extract_digit_addmul", adm=True, key=("kern", "extract", b, min(lsh, 1) + (lsh == 62)), nt=True))
        vals = bv + [r64(rng), r64(rng)]
        xs, cs = cross(vals, bv[:7] + [r64(rng)], rng, case_no % 4, r64)
        case_no += 1
        cases.append(dict(line=f"op=normalize_digit b={b} x={ints(xs)} c={ints(cs)}", fam="norm", op="normalize_digit",
                          adm=True, key=("kern", "normalize_digit", b), nt=True))
    # power-of-two multiplication, every k in [-63, 63]
    for k in range(-63, 64):
        for op in MUL_OPS:
            h = 1 << (abs(k) - 1) if k else 1
            vals = [0, 1, -1, h, -h, h - 1, -(h - 1), h + 1, 3 * h, -3 * h, 1 << 62, -(1 << 62), I64MIN, I64MAX, I64MAX - h + 1,
                    I64MAX - h] + [r64(rng) for _ in range(8)]
            vals = [w(v) for v in vals] + [r64(rng) for _ in range(case_no % 4)]
            case_no += 1
            xs = [r64(rng) for _ in vals]
            line = f"op={op} k={k} x={ints(xs)}" + (f" a={ints(vals)}" if op != "mul_pow2_assign" else "")
            if op == "mul_pow2_assign":
                line = f"op={op} k={k} x={ints(vals)}"
            cases.append(dict(line=line, fam="mul", op=op, adm=True, key=("kern", op, k), nt=True))
    # wrapping kernels, full-range digits, every tail length
    for op in WRAP_OPS:
        for n in ([1, 2, 3, 4, 5, 6, 7, 8, 9, 15, 16, 17, 64, 67] if quick else list(range(1, 70))):
            pool = [0, 1, -1, I64MIN, I64MAX, I64MIN + 1, 1 << 62, -(1 << 62)]
            mk = lambda: [rng.choice(pool) if rng.chance(1, 3) else r64(rng) for _ in range(n)]  # noqa: E731
            cases.append(dict(line=f"op={op} x={ints(mk())} a={ints(mk())} c={ints(mk())}", fam="wrap", op=op, adm=True,
                              key=("kern", op, n % 4, min(n // 4, 2)), nt=True))
    # inadmissible parameters: both implementations are only compared with their own model
    for (op, ow) in STEP_OPS + [("extract_digit_addmul", None), ("normalize_digit", None)]:
        for (b, lsh) in [(0, 0), (64, 0), (64, 3), (65, 1), (12, 12), (12, 40), (1, 1), (63, 63)]:
            n = 5
            t = f"op={op} b={b} lsh={lsh}" + (f" ow={ow}" if ow is not None else "")
            t += f" x={ints([r64(rng) for _ in range(n)])} a={ints([r64(rng) for _ in range(n)])} c={ints([r64(rng) for _ in range(n)])}"
            cases.append(dict(line=t, fam="inadm", op=op, adm=False, key=("kern-inadm", op, b, lsh), nt=True))
    for op in MUL_OPS:
        for k in [64, -64, 65, 100, I64MIN, I64MAX, 1 << 32, -(1 << 32) + 5]:
            n = 5
            cases.append(dict(line=f"op={op} k={k} x={ints([r64(rng) for _ in range(n)])} a={ints([r64(rng) for _ in range(n)])}",
                              fam="inadm", op=op, adm=False, key=("kern-inadm", op, k), nt=True))
    # switch_ring: every pair of degrees; automorphism: every odd exponent class
    degs = [1, 2, 4, 8, 16, 32, 64]
    for ni in degs:
        for no in degs:
            cases.append(dict(line=f"op=switch_ring x={ints([r64(rng) for _ in range(no)])} a={ints([r64(rng) for _ in range(ni)])}",
                              fam="index", op="switch_ring", adm=True, key=("kern", "switch_ring", ni, no), nt=True))
    for n in degs:
        ps = list(range(1, 2 * n, 2)) if (n <= 16 or not quick) else [rng.range(0, n - 1) * 2 + 1 for _ in range(12)]
        ps = ps + [-p for p in ps[:6]] + [w(rng.next()) | 1 for _ in range(3)]
        for p in ps:
            a = [rng.choice([I64MIN, I64MAX, 0, -1]) if rng.chance(1, 5) else r64(rng) for _ in range(n)]
            cases.append(dict(line=f"op=automorphism p={p} x={ints([r64(rng) for _ in range(n)])} a={ints(a)}", fam="index",
                              op="automorphism", adm=True, key=("kern", "automorphism", n, p % (2 * n)), nt=True))
    return cases


def gen_kern128(rng, quick):
    cases = []
    case_no = 0
    for b in list(range(1, 65)) + [65, 100, 127]:
        for op in NFC_OPS:
            ls = [0] + ([rng.range(1, b - 1)] if b > 1 else []) + ([b - 1] if (b > 2 and rng.chance(1, 3)) else [])
            if not quick:
                ls = list(range(b)) if b <= 64 else ls
            for lsh in sorted(set(ls)):
                bv = boundary128(min(b, 126))
                vals = bv + [r128(rng), r128(rng)]
                car = bv + [r128(rng), w(rng.next())]
                a_s, cs = cross(vals, car, rng, case_no % 4, r128)
                case_no += 1
                if case_no % 7 == 0:      # short slices: the n < 4 scalar dispatch
                    cut = rng.range(1, 3)
                    a_s, cs = a_s[:cut], cs[:cut]
                reads_res = op in ("nfc_middle_assign", "nfc_final_assign", "nfc_final_add", "nfc_final_sub")
                xs = [w(v) for v in a_s] if reads_res else [r64(rng) for _ in a_s]
                line = f"op={op} b={b} lsh={lsh} x={ints(xs)} c={ints(cs)}"
                if op in ("nfc_middle", "nfc_middle_add", "nfc_middle_sub"):
                    line += f" a={ints(a_s)}"
                cases.append(dict(line=line, fam="nfc", op=op, adm=True, key=("kern128", op, b, min(lsh, 1), len(xs) % 4, len(xs) < 4),
                                  nt=True))
    for op in BIG_OPS:
        for n in ([1, 3, 4, 5, 8, 11, 64, 66] if quick else list(range(1, 40))):
            pool = [0, 1, -1, I128MIN, I128MAX, (1 << 64) - 1, 1 << 64, -(1 << 64), I64MIN, I64MAX, (1 << 127) - (1 << 64)]
            mk = lambda: [rng.choice(pool) if rng.chance(1, 3) else r128(rng) for _ in range(n)]  # noqa: E731
            mk64 = lambda: [rng.choice([0, -1, 1, I64MIN, I64MAX]) if rng.chance(1, 3) else r64(rng) for _ in range(n)]  # noqa: E731
            a = mk64() if op in BIG_SMALL_A else mk()
            c = mk64() if op in BIG_SMALL_C else mk()
            cases.append(dict(line=f"op={op} x={ints(mk())} a={ints(a)} c={ints(c)}", fam="i128", op=op, adm=True,
                              key=("kern128", op, n % 4, min(n // 4, 2)), nt=True))
    return cases


Q30 = [1073479681, 1071513601, 1070727169, 1068236801]


def gen_q120(rng, quick, consts):
    """NTT120 integer kernels (c_from_b, from_znx64(+masked), mul_bbc): model vs nref/navx and nref vs navx"""
    cases = []
    U64 = (1 << 64) - 1
    for rep in range(6 if quick else 60):
        xs = []
        for j in range(rng.range(1, 9)):
            for k in range(4):
                q = Q30[k]
                xs.append(rng.choice([0, 1, q - 1, q, q + 1, 2 * q - 1, (q << 32) - 1, q << 32, (q << 33) - 1, (1 << 61) - 1, 1 << 32,
                                      (1 << 32) - 1, rng.next() % (q << 33), rng.next() % (q << 33)]))
        cases.append(dict(line=f"op=c_from_b x={ints(xs)}", fam="q120", op="c_from_b", adm=True, key=("q120", "c_from_b", len(xs) // 4, rep % 8), nt=True))
        xs = [rng.choice([0, 1, -1, I64MAX, I64MIN, I64MIN + 1, 1 << 62, -(1 << 62), r64(rng), r64(rng)]) for _ in range(rng.range(1, 12))]
        cases.append(dict(line=f"op=from_znx64 x={ints(xs)}", fam="q120", op="from_znx64", adm=True, key=("q120", "from_znx64", len(xs), rep % 8), nt=True))
        m = rng.choice([-1, 0, -(1 << rng.range(1, 62)), I64MIN, r64(rng)])
        cases.append(dict(line=f"op=from_znx64 mask={m} x={ints(xs)}", fam="q120", op="from_znx64_masked", adm=True,
                          key=("q120", "from_znx64_masked", len(xs), rep % 8), nt=True))
    meta = f"h={consts.get('bbc_h', 0)} s2l={consts.get('s2l', '-')} s2h={consts.get('s2h', '-')}"
    for ell in ([1, 2, 3, 17, 256, 9999, 10000] if quick else [1, 2, 3, 4, 5, 17, 100, 256, 1000, 4096, 9999, 10000]):
        for cls in ("max", "rand", "valid"):
            xs, ys = [], []
            for i in range(ell):
                for k in range(4):
                    q = Q30[k]
                    if cls == "max":
                        xs.append(U64)
                        ys.append(U64)
                    elif cls == "rand":
                        xs.append(rng.next())
                        ys.append(rng.next())
                    else:
                        r = rng.next() % q
                        xs.append(rng.next() % (q << 33))
                        ys.append(r | (((r << 32) % q) << 32))
            cases.append(dict(line=f"op=mul_bbc x={ints(xs)} y={ints(ys)} {meta}", fam="q120", op="mul_bbc", adm=True,
                              key=("q120", "mul_bbc", ell, cls), nt=True))
    return cases


def gen_cnvk(rng, quick):
    """`I64Ops::i64_convolution_by_const` (FFT64 family, integer kernel) on explicit blocks: model vs fref / favx, fref vs favx.
    Every value class is admissible: the kernel is exact in wrapping i64 (C10.CnvAvx.fft64avx_cnv_by_const_eq_ref_all_inputs)."""
    cases = []
    B = [0, 1, -1, (1 << 31) - 1, 1 << 31, -(1 << 31), -(1 << 31) - 1, (1 << 32) - 1, 1 << 32, 3000000000, -3000000000, 1 << 62, -(1 << 62),
         I64MIN, I64MAX]

    def val(cls):
        if cls == "i32":
            return (rng.next() % (1 << 32)) - (1 << 31)
        if cls == "bnd":
            return rng.choice(B)
        if cls == "mid":      # 33..48 bits
            return (rng.next() % (1 << 48)) - (1 << 47)
        return rng.next() - (1 << 63)

    for rep in range(3 if quick else 30):
        for cls in ("i32", "bnd", "mid", "full"):
            asz, bsz = rng.range(1, 5), rng.range(1, 5)
            for dst in ([0, 1, 2, 3, 6] if rep == 0 else [rng.range(0, 9)]):
                off = rng.range(0, asz + bsz + 1)
                xs = [val(cls) for _ in range(8 * asz)]
                ys = [val(cls) for _ in range(bsz)]
                cases.append(dict(line=f"dst={dst} off={off} asz={asz} x={ints(xs)} y={ints(ys)}", fam="cnvk", op="cnv_by_const", cls=cls,
                                  key=("cnvk", cls, asz, bsz, min(dst, 3), off > asz + bsz - 1)))
    return cases


def gen_nk(rng, quick, consts, bconsts):
    """raw NTT120 kernels (`pvh avx nk`): twin of the C10.NttAvx lane / whole-kernel theorems.
    `eq` = the operands are inside the range for which Ref == AVX is PROVED (outside, each implementation is still compared
    with its own model, and Ref != AVX is the documented behaviour of the lazy kernels)."""
    cases = []
    U64 = (1 << 64) - 1

    def word(k, cls):
        q = Q30[k]
        qs = q << 33
        if cls == "canon":
            return rng.choice([0, 1, q - 1, rng.next() % q])
        if cls == "q120b":      # documented range of c_from_b / b_to_znx128 / pack: x < q·2^33
            return rng.choice([0, 1, q - 1, q, 2 * q - 1, (q << 32) - 1, q << 32, qs - 1, rng.next() % qs, rng.next() % qs])
        if cls == "lazy":       # documented range of the lazy kernels: x < 2·Q_SHIFTED
            return rng.choice([0, 1, qs - 1, qs, qs + 1, 2 * qs - 1, rng.next() % (2 * qs), rng.next() % (2 * qs)])
        if cls == "outside":    # >= 2·Q_SHIFTED
            return rng.choice([2 * qs, 2 * qs + 1, U64, U64 - 1, 2 * qs + rng.next() % (U64 - 2 * qs + 1)])
        if cls == "max":
            return U64
        return rng.next()       # "rand": any u64

    def vec(n, cls):
        return [word(i % 4, cls) for i in range(4 * n)]

    # whole transforms: EVERY u64 vector
    ns = [1, 2, 4, 8, 16, 64, 256, 2048] if quick else [1, 2, 4, 8, 16, 32, 64, 128, 256, 512, 1024, 2048, 4096]
    for n in ns:
        for cls in (("max", "rand", "q120b") if quick and n > 64 else ("max", "rand", "q120b", "lazy", "outside", "canon")):
            for op in ("ntt", "intt"):
                cases.append(dict(line=f"op={op} n={n} x={ints(vec(n, cls))}", fam="nk", op=op, eq=True, key=("nk", op, n, cls)))
    # the schedule theorem: every split gives the same answer (model side), compared with the implementations
    for n, splits in ((8, (0, 1, 2, 3)), (32, (0, 2, 5)), (2048, (0, 1, 5, 11))):
        for sp in splits:
            for op in ("ntt", "intt"):
                cases.append(dict(line=f"op={op} n={n} split={sp} x={ints(vec(n, 'rand'))}", fam="nk", op=op + "_split", eq=True,
                                  key=("nk", op, "split", n, sp)))
    # lazy arithmetic
    for rep in range(2 if quick else 12):
        for op in ("add", "sub", "add_assign", "sub_assign", "sub_negate_assign", "negate", "negate_assign"):
            for cls in ("lazy", "q120b", "outside", "max", "rand"):
                n = rng.range(1, 6)
                xs, ys = vec(n, cls), vec(n, cls if rng.chance(1, 2) else "lazy")
                inr = cls in ("lazy", "q120b") or (cls == "rand" and all(v < 2 * (Q30[i % 4] << 33) for i, v in enumerate(xs + ys)))
                cases.append(dict(line=f"op={op} x={ints(xs)} y={ints(ys)}", fam="nk", op=op, eq=inr, key=("nk", op, cls, rep % 4)))
    # CRT reconstruction
    for rep in range(3 if quick else 30):
        for cls in ("q120b", "canon", "lazy", "max", "rand"):
            n = rng.range(1, 9)
            cases.append(dict(line=f"op=to_znx128 x={ints(vec(n, cls))}", fam="nk", op="to_znx128", eq=cls in ("q120b", "canon"),
                              key=("nk", "to_znx128", cls, rep % 4)))
    # products: arbitrary 64-bit words
    bbb = " ".join(f"{k}={bconsts.get(v, '-')}" for k, v in (("h", "bbb_h"), ("s1h", "s1h"), ("s2l", "s2l"), ("s2h", "s2h"), ("s3l", "s3l"),
                                                             ("s3h", "s3h"), ("s4l", "s4l"), ("s4h", "s4h")))
    bbc = f"h={consts.get('bbc_h', 0)} s2l={consts.get('s2l', '-')} s2h={consts.get('s2h', '-')}"
    for ell in ([1, 2, 17, 256] if quick else [1, 2, 3, 5, 17, 100, 256, 1000, 4096]):
        for cls in ("max", "rand", "q120b"):
            cases.append(dict(line=f"op=mul_bbb x={ints(vec(ell, cls))} y={ints(vec(ell, cls))} {bbb}", fam="nk", op="mul_bbb", eq=True,
                              key=("nk", "mul_bbb", ell, cls)))
            cases.append(dict(line=f"op=mul_bbc_x2 x={ints(vec(2 * ell, cls))} y={ints(vec(2 * ell, cls))} {bbc}", fam="nk", op="mul_bbc_x2",
                              eq=True, key=("nk", "mul_bbc_x2", ell, cls)))
            cases.append(dict(line=f"op=mul_bbc_2cols x={ints(vec(2 * ell, cls))} y={ints(vec(4 * ell, cls))} {bbc}", fam="nk",
                              op="mul_bbc_2cols", eq=True, key=("nk", "mul_bbc_2cols", ell, cls)))
    # pack kernels
    for rep in range(3 if quick else 20):
        rows, blk = rng.range(1, 5), rng.range(0, 3)
        stride = 8 * (blk + 1) + 8 * rng.range(0, 3)
        ln = stride * (rows - 1) + 8 * blk + 8
        for cls in ("q120b", "canon", "max", "rand"):
            mk = lambda: [word(i % 4, cls) for i in range(ln)]  # noqa: E731
            inr = cls in ("q120b", "canon")
            cases.append(dict(line=f"op=pack_left rows={rows} stride={stride} blk={blk} x={ints(mk())}", fam="nk", op="pack_left", eq=inr,
                              key=("nk", "pack_left", cls, rows, blk)))
            cases.append(dict(line=f"op=pairwise_pack_left rows={rows} stride={stride} blk={blk} x={ints(mk())} y={ints(mk())}", fam="nk",
                              op="pairwise_pack_left", eq=inr, key=("nk", "pairwise_pack_left", cls, rows, blk)))
        stride32 = 16 * (blk + 1) + 16 * rng.range(0, 3)
        ln64 = (stride32 * (rows - 1) + 16 * blk + 16) // 2
        for cls in ("c", "max", "rand"):
            def mkc():
                out = []
                for i in range(ln64):
                    q = Q30[i % 4]
                    r = rng.next() % q
                    out.append({"c": r | (((r << 32) % q) << 32), "max": U64, "rand": rng.next()}[cls])
                return out
            cases.append(dict(line=f"op=pack_right rows={rows} stride={stride32} blk={blk} x={ints(mkc())}", fam="nk", op="pack_right", eq=True,
                              key=("nk", "pack_right", cls, rows, blk)))
            cases.append(dict(line=f"op=pairwise_pack_right rows={rows} stride={stride32} blk={blk} x={ints(mkc())} y={ints(mkc())}", fam="nk",
                              op="pairwise_pack_right", eq=True, key=("nk", "pairwise_pack_right", cls, rows, blk)))
    return cases


COEFF_OPS = ["add_into", "add_assign", "sub", "sub_assign", "sub_negate_assign", "negate", "negate_assign", "add_scalar_into",
             "add_scalar_assign", "sub_scalar", "sub_scalar_assign", "rotate", "rotate_assign", "automorphism",
             "automorphism_assign", "mul_xp_minus_one", "mul_xp_minus_one_assign", "copy", "zero"]
SHIFT_OPS = ["lsh", "rsh", "lsh_add_into", "rsh_add_into", "lsh_sub", "rsh_sub", "lsh_assign", "rsh_assign"]
BIGH_OPS = ["big_from_small", "big_add_into", "big_add_assign", "big_add_small_into", "big_add_small_assign", "big_sub",
            "big_sub_assign", "big_sub_negate_assign", "big_sub_small_a", "big_sub_small_b", "big_sub_small_assign",
            "big_sub_small_negate_assign", "big_negate", "big_negate_assign", "big_automorphism", "big_automorphism_assign"]
BIGN_OPS = ["big_normalize", "big_normalize_add_assign", "big_normalize_sub_assign", "big_normalize_negate"]
DFT_LIN = ["dft_apply", "dft_idft_tmpa", "dft_idft_consume", "dft_add_into", "dft_add_assign", "dft_sub", "dft_sub_assign",
           "dft_sub_negate_assign", "dft_copy", "dft_zero"]


def gen_hal(rng, quick):
    """-> list of dicts {line, fam, op, dom: 'all' (four back ends equal) | 'fam' (Ref==AVX inside each family only),
    n1: run for n=1 on NTT120 only}"""
    cases = []
    rep = 1 if quick else 6

    def shape():
        return rng.choice([2, 4, 8, 16, 64]), rng.range(1, 2), rng.range(1, 5), rng.range(1, 5), rng.range(1, 5)

    def add(op, extra, fam, dom, n, key):
        cases.append(dict(line=f"op={op} n={n} {extra} seed={rng.next() >> 1}", fam=fam, op=op, dom=dom, n=n,
                          key=("hal", op) + key, nt=True))

    for _ in range(rep):
        # coefficient-domain, wrapping: full-range digits
        for op in COEFF_OPS:
            for i in range(5):
                n, cols, sa, sb, sr = shape()
                if i == 0:
                    n = 1
                p = rng.range(-2 * n - 3, 2 * n + 3)
                if "automorphism" in op:
                    p |= 1
                va = rng.choice(["full", "full", "bnd", "mix"])
                add(op, f"cols={cols} col={rng.below(cols)} sa={sa} sb={sb} sr={sr} b=12 k={rng.below(5)} p={p} va={va} vb={va} ma=64 mb=64",
                    "vec_znx", "all", n, (n, cols, min(sa, sr) == sr, va))
        # normalisation through the HAL: every radix, cross radix, offsets, full range
        for b in range(1, 64):
            for j in range(2):
                n, cols, sa, sb, sr = shape()
                if j == 1 and b % 9 == 0:
                    n = 1
                b2 = b if j == 0 else rng.range(1, 63)
                off = rng.range(-(sr + 1) * b, (sa + 1) * b2)
                va = rng.choice(["full", "norm", "bnd", "mix"])
                add("normalize", f"cols={cols} col={rng.below(cols)} sa={sa} sr={sr} b={b} b2={b2} off={off} va={va} ma={b2}",
                    "vec_znx_normalize", "all", n, (b, b2 == b, (off > 0) - (off < 0), va))
            n, cols, sa, sb, sr = shape()
            add("normalize_assign", f"cols={cols} col={rng.below(cols)} sa={sa} b={b} va={rng.choice(['full', 'mix', 'bnd'])} ma=64",
                "vec_znx_normalize", "all", n, (b,))
            n, cols, sa, sb, sr = shape()
            op = rng.choice(SHIFT_OPS)
            add(op, f"cols={cols} col={rng.below(cols)} sa={sa} sr={sr} b={b} k={rng.range(0, (sa + 1) * b)} va={rng.choice(['norm', 'full'])} ma={b} vr=norm mr={b}",
                "vec_znx_shift", "all", n, (b,))
        for op in SHIFT_OPS:
            for _i in range(4):
                n, cols, sa, sb, sr = shape()
                b = rng.range(2, 62)
                add(op, f"cols={cols} col={rng.below(cols)} sa={sa} sr={sr} b={b} k={rng.range(0, (sa + 1) * b)} va=full ma=64 vr=full",
                    "vec_znx_shift", "all", n, ("full", n))
        # ring switching / split / merge
        for ni in [1, 2, 4, 8, 16, 64]:
            for no in [1, 2, 4, 8, 16, 64]:
                if max(ni, no) < 2:
                    continue
                cols, sa, sr = rng.range(1, 2), rng.range(1, 4), rng.range(1, 4)
                add("switch_ring", f"n2={no} cols={cols} col={rng.below(cols)} sa={sa} sr={sr} va=full ma=64", "vec_znx_ring",
                    "all", ni, (ni, no))
        for n in [4, 8, 16, 64]:
            for parts in [2, 4]:
                add("split_ring", f"parts={parts} cols=1 sa={rng.range(1, 3)} sr={rng.range(1, 3)} va=full ma=64", "vec_znx_ring", "all",
                    n, (n, parts))
                add("merge_rings", f"parts={parts} cols=1 sa={rng.range(1, 3)} sr={rng.range(1, 3)} va=full ma=64", "vec_znx_ring", "all",
                    n, (n, parts))
        # vec_znx_big arithmetic: inside i64 (all four equal) and beyond (NTT120 family only: FFT64's big is i64)
        for op in BIGH_OPS:
            for i in range(4):
                n, cols, sa, sb, sr = shape()
                if i == 3:
                    n = 1
                b = rng.range(3, 60)
                p = rng.range(-2 * n, 2 * n) | 1
                if i % 2 == 0:
                    add(op, f"cols={cols} col={rng.below(cols)} sa={sa} sb={sa} sr={sa} b={b} p={p} va=norm vb=norm vr=norm ma=60 mb=60 mr=60",
                        "vec_znx_big", "all", n, (n, "small"))
                else:
                    add(op, f"cols={cols} col={rng.below(cols)} sa={sa} sb={sa} sr={sa} b={b} p={p} va=mix vb=mix vr=full ma=64 mb=64 dbl={rng.range(1, 60)}",
                        "vec_znx_big", "fam", n, (n, "wide"))
        for b in range(1, 64):
            op = BIGN_OPS[b % 4] if b % 3 else "big_normalize"
            n, cols, sa, sb, sr = shape()
            b2 = rng.choice([b, rng.range(1, 63)])
            off = rng.range(-(sr + 1) * b, (sa + 1) * b2)
            add(op, f"cols={cols} col={rng.below(cols)} sa={sa} sr={sr} b={b} b2={b2} off={off} va=norm ma={rng.choice([b2, b2 + 3, 50])} vr=norm mr={b}",
                "big_normalize", "all", n, (b, b2 == b, "i64"))
            n, cols, sa, sb, sr = shape()
            if b % 8 == 0:
                n = 1
            add(op, f"cols={cols} col={rng.below(cols)} sa={sa} sr={sr} b={b} b2={b2} off={off} va=mix ma=64 dbl={rng.range(1, 62)} vr=norm mr={b}",
                "big_normalize", "fam", n, (b, b2 == b, "i128"))
        # DFT domain, inside both magnitude domains: n * terms * 2^(ma-1) * 2^(mb-1) <= 2^50
        for op in DFT_LIN:
            for _i in range(4):
                n, cols, sa, sb, sr = shape()
                b = rng.range(8, 17)
                add(op, f"cols={cols} col={rng.below(cols)} sa={sa} sb={sb} sr={sr} b={b} step={rng.range(1, 3)} doff={rng.range(0, 4)} va=norm vb=norm ma={b} mb={b}",
                    "vec_znx_dft", "all", n, (n, sa >= sr))
        for op in DFT_LIN + ["dft_add_scaled_assign", "svp_apply_dft", "svp_apply_dft_to_dft", "svp_apply_dft_to_dft_assign"]:
            for n in (1, 2, 4):
                cols, sa, sb, sr = rng.range(1, 2), rng.range(1, 4), rng.range(1, 4), rng.range(1, 4)
                add(op, f"cols={cols} col={rng.below(cols)} sa={sa} sb={sb} sr={sr} b=12 step=1 doff={rng.range(0, 1)} off={rng.range(-2, 2)} va=norm vb=norm ma=12 mb=12",
                    "small_ring_dft", "all", n, (n,))
        for _i in range(6):
            n, cols, sa, sb, sr = shape()
            add("dft_add_scaled_assign", f"cols={cols} col={rng.below(cols)} sa={sa} sb={sb} sr={sr} b=12 off={rng.range(-3, 3)} va=norm vb=norm ma=12 mb=12",
                "vec_znx_dft", "all", n, (n,))
        for op in ["svp_apply_dft", "svp_apply_dft_to_dft", "svp_apply_dft_to_dft_assign"]:
            for _i in range(5):
                n, cols, sa, sb, sr = shape()
                b = rng.range(8, 17)
                add(op, f"cols={cols} col={rng.below(cols)} sa={sa} sb={sb} sr={sr} b={b} va=norm vb=norm ma={b} mb={rng.range(1, 20)}", "svp", "all",
                    n, (n, sa >= sr))
        for op in ["vmp_apply_dft", "vmp_apply_dft_to_dft"]:
            for _i in range(12):
                n, cols, sa, sb, sr = shape()
                b = rng.range(8, 17)
                rows = rng.range(1, 5)
                cout = rng.range(1, 3)
                lo = rng.range(0, 3) if op.endswith("to_dft") else 0
                add(op, f"cols={cols} sa={sa} sb={sb} sr={sr} rows={rows} cout={cout} lo={lo} b={b} va=norm vb=norm ma={b} mb={b}", "vmp",
                    "all" if n >= 8 else "fam", n, (n, rows >= sa, lo, cout))
        for op in ["cnv_apply_dft", "cnv_pairwise_apply_dft", "cnv_self_apply_dft", "cnv_by_const_apply"]:
            for _i in range(8):
                n, cols, sa, sb, sr = shape()
                b = rng.range(8, 15)
                add(op, f"cols={cols} col={rng.below(cols)} sa={sa} sb={sb} sr={rng.range(1, 8)} co={rng.range(0, 6)} b={b} va=norm vb=norm ma={b} mb={b}", "cnv",
                    "all" if n >= 8 else "fam", n, (n, sa, sb))
        # DFT domain beyond the FFT64 conversion bound (|a| up to 2^40 per limb): NTT120 family must still agree;
        # the FFT64 pair is recorded but not demanded (DESIGN §3.2)
        for op in ["svp_apply_dft", "vmp_apply_dft", "cnv_apply_dft", "dft_apply"]:
            for _i in range(4):
                n, cols, sa, sb, sr = shape()
                add(op, f"cols={cols} col={rng.below(cols)} sa={sa} sb={sb} sr={sr} rows={rng.range(1, 4)} cout=1 co=0 b=30 va=norm vb=norm ma=48 mb=40",
                    "dft_wide", "ntt", n, (n,))
    # ---- index kernels (automorphism gathers, rotations) at EVERY large ring degree up to the maximum, one exponent per class
    # mod 8 and both signs: the AVX kernels derive p^-1 mod 2N and block schedules from N, so a slip may show only at one degree
    for n in ([128, 512, 2048, 8192, 16384, 32768, 65536] if quick else [2 ** j for j in range(7, 17)]):
        for p in [-1, 3, 5, 7, 2 * n - 1, 2 * n - 3, -5, n + 1, 3 * n + 3 if (3 * n + 3) % 2 else 3 * n + 1][: (9 if not quick else 6)] + [rng.range(0, 2 * n - 1) | 1]:
            op = rng.choice(["automorphism", "automorphism_assign", "big_automorphism", "big_automorphism_assign"])
            add(op, f"cols=1 col=0 sa=1 sb=1 sr=1 b=12 k=0 p={p} va=full vb=full vr=full ma=64 mb=64", "index_big_ring", "all", n, ("idxbig", n, p % 8, p < 0))
        for k in (1, -1, n, n - 1, 2 * n - 1):
            add(rng.choice(["rotate", "rotate_assign"]), f"cols=1 col=0 sa=1 sb=1 sr=1 b=12 k=0 p={k} va=full vb=full vr=full ma=64 mb=64", "index_big_ring", "all", n, ("rotbig", n, k % n == 0))
    # ---- large rings, worst-case value classes (all digits at the extremes, aligned signs), a-priori bound
    # n * terms * 2^(ma-1) * 2^(mb-1) = 2^48 / 2^49 (demanded: all four equal) and the edge up to 2^50 (recorded: where FFT64 rounds wrongly)
    import math
    for n in ([4096] if quick else [4096, 16384, 65536]):
        lg = int(math.log2(n))
        for cls in ("max", "min", "ext"):
            for (op, terms, extra) in [("svp_apply_dft", 1, "cols=1 sa=2 sb=1 sr=2"), ("svp_apply_dft_to_dft", 1, "cols=1 sa=2 sb=1 sr=2"),
                                       ("vmp_apply_dft", 4, "cols=1 sa=2 sb=2 sr=2 rows=2 cout=2"),
                                       ("vmp_apply_dft_to_dft", 4, "cols=2 sa=1 sb=2 sr=2 rows=2 cout=1 lo=0"),
                                       ("cnv_apply_dft", 2, "cols=1 sa=2 sb=2 sr=4 co=0"), ("cnv_by_const_apply", 2, "cols=1 sa=2 sb=2 sr=4 co=0")]:
                # measured: worst-case inputs are exact up to 2^49 for n <= 4096 and up to 2^48 for n <= 65536
                for (tgt, dom) in ((48, "all"), (49, "all" if n <= 4096 else "edge"), (50, "edge")):
                    tot = tgt - lg - int(math.log2(terms)) + 2          # ma + mb
                    ma = tot // 2
                    mb = tot - ma
                    b = min(ma, 30)
                    add(op, f"{extra} b={b} va={cls} vb={cls} ma={ma} mb={mb}", "big_ring_worst", dom, n, (n, cls, tgt))
            # the transforms themselves
            add("dft_fft_raw", f"cols=1 sa=2 b=20 va={cls} ma=40", "transform_raw", "fftraw", n, (n, cls))
            add("dft_ifft_raw", f"cols=1 sa=2 b=20 va={cls} ma=40", "transform_raw", "fam", n, (n, cls))
            add("dft_idft_consume", f"cols=1 col=0 sa=2 sr=2 b=20 step=1 doff=0 va={cls} ma=20", "transform_raw", "all", n, (n, cls))
    # ---- integer (non-FFT) kernel families with FULL-RANGE i64 digits on every back end: the FFT magnitude domain restricts only the
    # floating-point paths.  FFT64's big is a wrapping i64 and NTT120's an exact i128, so where a result can leave i64 the demand is
    # Ref == AVX inside each family ("fam"); where it cannot, all four must agree ("all").
    for _ in range(rep):
        for op in COEFF_OPS:
            n, cols, sa, sb, sr = shape()
            pp = rng.range(-2 * n - 3, 2 * n + 3) | (1 if "automorphism" in op else 0)
            add(op, f"cols={cols} col={rng.below(cols)} sa={sa} sb={sb} sr={sr} b=12 k={rng.below(5)} p={pp} va=full vb=full vr=full ma=64 mb=64",
                "int_full:vec_znx", "all", n, ("intfull", n))
        for b in (1, 2, 7, 17, 31, 32, 33, 47, 52, 62, 63):
            n, cols, sa, sb, sr = shape()
            add("normalize", f"cols={cols} col={rng.below(cols)} sa={sa} sr={sr} b={b} b2={b} off={rng.range(-b, b)} va=full ma=64",
                "int_full:normalize", "all", n, ("intfull", b))
            n, cols, sa, sb, sr = shape()
            add("normalize_assign", f"cols={cols} col={rng.below(cols)} sa={sa} b={b} va=full ma=64", "int_full:normalize", "all", n, ("intfull", b))
            n, cols, sa, sb, sr = shape()
            add(rng.choice(SHIFT_OPS), f"cols={cols} col={rng.below(cols)} sa={sa} sr={sr} b={max(b, 2)} k={rng.range(0, (sa + 1) * b)} va=full ma=64 vr=full",
                "int_full:shift", "all", n, ("intfull", b))
        for (ni, no) in ((8, 16), (16, 8), (64, 4), (2, 64)):
            add("switch_ring", f"n2={no} cols=1 col=0 sa=2 sr=2 va=full ma=64", "int_full:ring", "all", ni, ("intfull", ni, no))
        for op in BIGH_OPS:
            n, cols, sa, sb, sr = shape()
            pp = rng.range(-2 * n, 2 * n) | 1
            add(op, f"cols={cols} col={rng.below(cols)} sa={sa} sb={sa} sr={sa} b=52 p={pp} va=full vb=full vr=full ma=64 mb=64 dbl={rng.range(1, 60)}",
                "int_full:vec_znx_big", "fam", n, ("intfull", n))
        for b in (3, 17, 32, 33, 52, 63):
            n, cols, sa, sb, sr = shape()
            add(BIGN_OPS[b % 4] if b % 3 else "big_normalize",
                f"cols={cols} col={rng.below(cols)} sa={sa} sr={sr} b={b} b2={b} off=0 va=full ma=64 dbl={rng.range(1, 62)} vr=norm mr={b}",
                "int_full:big_normalize", "fam", n, ("intfull", b))
        # by-constant convolution: an integer kernel on FFT64 (wrapping i64) — the class that patch 34 repaired
        for (va, ma, mb, dom) in (("full", 64, 64, "fam"), ("bnd", 64, 64, "fam"), ("mix", 64, 64, "fam"), ("norm", 33, 33, "fam"),
                                  ("norm", 34, 12, "all"), ("norm", 40, 20, "all"), ("norm", 52, 8, "all")):
            for n in (8, 16, 64):
                sa, sb = rng.range(1, 5), rng.range(1, 5)
                add("cnv_by_const_apply", f"cols=1 col=0 sa={sa} sb={sb} sr={rng.range(1, 8)} co={rng.range(0, 6)} b={min(ma, 52)} va={va} vb={va} ma={ma} mb={mb}",
                    "int_full:cnv_by_const", dom, n, ("intfull", va, ma, mb, n))
    return cases


def gen_scheme(rng, quick):
    cases = []
    ops = ["enc_sk", "enc_pk", "keyswitch", "extprod", "automorphism", "cmux", "ckks_square", "ckks_mul"]
    for op in ops:
        for i in range(4 if quick else 16):
            n = rng.choice([8, 16, 64])
            b = rng.choice([10, 12, 14, 17])
            rank = rng.range(1, 2)
            dsize = rng.range(1, 4)
            p = rng.range(-n, n) | 1
            cases.append(dict(line=f"op={op} n={n} b={b} rank={rank} dsize={dsize} p={p} seed={rng.next() >> 1}", fam="scheme", op=op, dom="all",
                              n=n, key=("scheme", op, n, b, rank, dsize), nt=True))
    # key-switch / automorphism / external product with digit sizes 3 and 4 explicitly
    for op in ("keyswitch", "automorphism", "extprod", "cmux"):
        for dsize in (3, 4):
            for i in range(2 if quick else 8):
                n = rng.choice([8, 16, 64])
                b = rng.choice([10, 12, 14])
                kin = rng.range(2, 6) * b + rng.range(0, b - 1)
                cases.append(dict(line=f"op={op} n={n} b={b} rank={rng.range(1, 2)} dsize={dsize} kin={kin} p={rng.range(-n, n) | 1} seed={rng.next() >> 1}",
                                  fam="scheme", op=op, dom="all", n=n, key=("scheme", op, n, b, dsize, "kin"), nt=True))
    # CKKS program: encrypt, multiply, rescale, rotate (every intermediate ciphertext hashed)
    for i in range(6 if quick else 40):
        n = rng.choice([8, 16, 64])
        b = rng.choice([10, 12, 14, 17])
        dsize = rng.range(1, 3)
        cases.append(dict(line=f"op=ckks_prog n={n} b={b} dsize={dsize} rs={rng.range(1, 2 * b)} rot={rng.choice([1, -1, 2, 3, n // 4])} seed={rng.next() >> 1}",
                          fam="scheme", op="ckks_prog", dom="all", n=n, key=("scheme", "ckks_prog", n, b, dsize), nt=True))
    # relinearisation with a dirty scratch arena (the arena is overwritten between tensor product and relinearisation)
    for dsize in (1, 2, 3):
        for i in range(2 if quick else 8):
            n = rng.choice([8, 16])
            b = rng.choice([10, 12])
            poison = rng.choice([0, 4607182418800017408, 1, -1])
            cases.append(dict(line=f"op=tensor_relin n={n} b={b} dsize={dsize} poison={poison} seed={rng.next() >> 1}", fam="scheme",
                              op="tensor_relin", dom="all", n=n, key=("scheme", "tensor_relin", n, b, dsize, poison != 0), nt=True))
            cases.append(dict(line=f"op=cmux n={n} b={b} rank={rng.range(1, 2)} dsize={dsize} poison={poison} seed={rng.next() >> 1}", fam="scheme",
                              op="cmux", dom="all", n=n, key=("scheme", "cmux-poison", n, b, dsize, poison != 0), nt=True))
    return cases


def gen_sample(rng, quick):
    cases = []
    for op in ["fill_uniform", "fill_normal", "add_normal", "big_add_normal"]:
        for i in range(6 if quick else 40):
            n = rng.choice([1, 2, 4, 8, 16, 64]) if op != "big_add_normal" else rng.choice([2, 4, 8, 64])
            b = rng.range(2, 30)
            size = rng.range(1, 4)
            k = rng.range(1, size * b)
            cases.append(dict(line=f"op={op} n={n} size={size} b={b} k={k} seed={rng.next() >> 1}", fam="sample", op=op,
                              dom="all", n=n, key=("sample", op, n, b), nt=True))
    return cases


# ----------------------------------------------------------------------------- driver
def payload(l):
    return l.split(" ", 1)[1] if " " in l else "?"


def parse_lists(line):
    d = {}
    for t in line.split():
        if "=" in t:
            k, v = t.split("=", 1)
            d[k] = v
    return d


K_REIM = "poulpy-cpu-avx/fft64/reim/fft_vec_avx2_fma.rs:reim_*_avx2_fma:no-tail:N<8"
K_FUSED = "vec_znx_big_normalize_add_assign|sub_assign:cross-base2k:ntt120-fused-renormalises"
K_FUSED_SUB = "vec_znx_big_normalize_sub_assign:cross-base2k:ntt120-fused-res-carry-sign"
K_DSIZE = "poulpy-core/keyswitching/glwe.rs:gglwe_product_dft:dsize>=3:accumulates-onto-unwritten-res-limb"
REIM_OPS = {"dft_add_into", "dft_add_assign", "dft_sub", "dft_sub_assign", "dft_sub_negate_assign", "dft_add_scaled_assign",
            "svp_apply_dft", "svp_apply_dft_to_dft", "svp_apply_dft_to_dft_assign", "enc_sk", "enc_pk", "keyswitch", "extprod",
            "automorphism", "cmux", "ckks_square", "ckks_mul"}


def same_value(oa, ob, n, cols, size, b):
    """do two flattened VecZnx dumps (limb-major, column-minor) hold the same value mod 2^(b*size) per coefficient?"""
    try:
        xa = [int(v) for v in oa.split(",")]
        xb = [int(v) for v in ob.split(",")]
    except ValueError:
        return False
    if len(xa) != len(xb) or len(xa) != n * cols * size:
        return False
    mod = 1 << (b * size)
    for i in range(cols):
        for t in range(n):
            va = sum(xa[n * (j * cols + i) + t] << (b * (size - 1 - j)) for j in range(size))
            vb = sum(xb[n * (j * cols + i) + t] << (b * (size - 1 - j)) for j in range(size))
            if (va - vb) % mod:
                return False
    return True


def finding_key(c, p, q, rp, rq):
    """stable key of a recorded defect class this difference belongs to, or None"""
    d = parse_lists(c["line"])
    op = d.get("op", "")
    n = int(d.get("n", 0))
    if p == "fref" and q == "favx" and op in REIM_OPS and n in (2, 4):
        return K_REIM
    if p == "fref" and q == "nref" and op in ("big_normalize_add_assign", "big_normalize_sub_assign") and d.get("b") != d.get("b2"):
        if same_value(rp, rq, n, int(d.get("cols", 1)), int(d.get("sr", 1)), int(d.get("b", 1))):
            return K_FUSED
        if op == "big_normalize_sub_assign":
            return K_FUSED_SUB
    if p == "fref" and q == "nref" and op in ("ckks_mul", "ckks_square", "tensor_relin", "cmux") and int(d.get("dsize", 1)) >= 3:
        return K_DSIZE
    return None


def lane_search(case, out_ref, out_avx):
    """first lane on which the Python oracle disagrees with an implementation; None if it cannot tell"""
    d = parse_lists(case["line"])
    op = d["op"]
    if oracle_lane(op, 12, 0, 0, 0, 0, 0, 0) is None:
        return None
    gl = lambda k: [] if d.get(k, "-") == "-" else [int(v) for v in d[k].split(",")]  # noqa: E731
    x, a, c = gl("x"), gl("a"), gl("c")
    n = len(x)
    a = a or [0] * n
    cc = c or [0] * n
    b, lsh, k, ow = int(d.get("b", 0)), int(d.get("lsh", 0)), int(d.get("k", 0)), int(d.get("ow", 0))
    for name, out in (("ref", out_ref), ("avx", out_avx)):
        if "|" not in out or out.startswith("panic"):
            continue
        ox, oc = out.split("|")[:2]
        ox = [int(v) for v in ox.split(",")] if ox != "-" else []
        oc = [int(v) for v in oc.split(",")] if oc != "-" else cc
        for i in range(min(n, len(ox))):
            want = oracle_lane(op, b, lsh, k, ow, x[i], a[i], cc[i])
            if (ox[i], oc[i] if i < len(oc) else cc[i]) != want:
                return {"implementation": name, "op": op, "b": b, "lsh": lsh, "k": k, "ow": ow, "lane": i, "x": x[i], "a": a[i],
                        "c": cc[i], "got": [ox[i], oc[i] if i < len(oc) else None], "want": list(want)}
    return None


def run(ctx):
    rng = ctx.rng
    quick = ctx.tier == "quick"
    ctx.trusted += [
        "bv_decide: axioms '<lemma>._native.bv_decide.ax_*' of the lane lemmas in Lemmas/Avx.lean (LRAT certificate from "
        "cadical, checked by Lean's verified checker run natively) — accepted for C10, listed under coverage.bv_decide_axioms",
        "Model/Avx.lean: each AVX2 intrinsic read as one lane of its Intel pseudo-code; tied by running the real kernels of all "
        "four back ends on boundary values x carries x every radix through the primitive Znx*/I128* traits",
        "FFT / NTT / reim4 / mat_vec AVX kernels are not lane-modelled: tied only by Ref == AVX == (FFT64 == NTT120) on explicit inputs",
    ]
    ctx.assumptions += [
        "harness profile: overflow-checks = false (documented wrapping limb arithmetic); with overflow checks on, the reference "
        "kernels panic on `digit + carry` overflow where the AVX kernels wrap",
        "the CPU executes AVX2 intrinsics as Intel documents them",
    ]
    broken = []
    witness = None

    # ---- gate 1: proofs
    ok, failures = ctx.proof_gate(["Poulpy.Props.C10"], allow_bv=True)
    if not ok:
        broken += failures
    bv = sorted({a for axs in ctx.axioms.values() for a in axs if "bv_decide" in a})
    ctx.cov["bv_decide_axioms"] = bv


    # ---- the FFT64 family's own Ref = AVX statement is proved in C07 (floating-point transforms inside the magnitude domain): cited
    CITED = ["fft64_ref_avx_agree_inside_domain", "fft64_ref_avx_agree_numeric", "fft64_vmp_ref_avx_agree", "fft64_vmp_ref_avx_agree_numeric",
             "fft64_vmp2_ref_avx_agree_numeric", "fft64_cnv_ref_avx_agree", "fft64_cnv_pairwise_ref_avx_agree"]
    try:
        c07src = open(os.path.join(common.LEAN, "Poulpy", "Props", "C07.lean")).read()
    except OSError:
        c07src = ""
    missing = [t for t in CITED if not re.search(r"^theorem\s+" + re.escape(t) + r"\b", c07src, re.M)]
    ctx.cov["cited_c07_theorems"] = {"module": "Poulpy.Props.C07 (namespace C07; discharged by ./check C07)", "names": CITED, "missing": missing}
    if missing:
        broken.append("cited C07 theorems not found in Props/C07.lean: " + ", ".join(missing))

    binp = ctx.build_harness()
    drv = ctx.driver()
    if binp is None:
        broken.append("harness build failed: " + getattr(ctx, "build_error", "")[-600:])
    if drv is None:
        broken.append("model driver does not build: " + getattr(ctx, "driver_error", "")[-600:])
    fam_counts = {}
    lanes_total = 0

    def bump(f):
        fam_counts[f] = fam_counts.get(f, 0) + 1

    # ---- gate 2 + 3a: slice kernels — model vs implementation, Ref vs AVX
    if binp and drv:
        k64 = gen_kern(rng.fork(), quick)
        k128 = gen_kern128(rng.fork(), quick)
        jobs = []          # (case, be)
        for i, c in enumerate(k64):
            bes = ["fref", "favx"] if i % 5 else ["fref", "favx", "nref", "navx"]
            for be in bes:
                jobs.append((c, be))
        for c in k128:
            for be in ["nref", "navx"]:
                jobs.append((c, be))
        hl = [f"{i} kern be={be} {c['line']}" for i, (c, be) in enumerate(jobs)]
        ml = [f"{i} avx kern be={be} {c['line']}" for i, (c, be) in enumerate(jobs)]
        rc, hout, herr = ctx.run_lines(binp, ["avx"], hl)
        rc2, mout, merr = ctx.run_lines(drv, [], ml)
        if rc != 0 or len(hout) != len(jobs):
            broken.append(f"pvh avx (kern) failed rc={rc} answers={len(hout)}/{len(jobs)} {herr[-300:]}")
        if rc2 != 0 or len(mout) != len(jobs):
            broken.append(f"pdriver avx kern failed rc={rc2} answers={len(mout)}/{len(jobs)} {merr[-300:]}")
        res = {}
        for i, (c, be) in enumerate(jobs):
            h = payload(hout[i]) if i < len(hout) else "?"
            m = payload(mout[i]) if i < len(mout) else "?"
            res[(id(c), be)] = h
            ctx.count_case(c["key"] + (be,), nontrivial=True)
            bump("kern:" + c["fam"])
            lanes_total += h.count(",") + 1
            if "stray" in h:
                broken.append(f"kernel wrote outside its slice: be={be} {c['line'][:200]} -> {h[-40:]}")
                witness = witness or {"kind": "stray-write", "be": be, "request": c["line"], "answer": h}
            if h != m:
                ctx.disagreements += 1
                if len(broken) < 12:
                    broken.append(f"model != implementation: be={be} {c['line'][:160]} impl={h[:80]} model={m[:80]}")
                w1 = lane_search(c, h if be.endswith("ref") else "", h if be.endswith("avx") else "")
                if w1:
                    ctx.oracle_failures += 1
                    witness = witness or dict(w1, kind="kernel-vs-oracle", be=be)
        # Ref vs AVX on admissible parameters
        for c in k64 + k128:
            for (r_, a_) in (("fref", "favx"), ("nref", "navx")):
                if (id(c), r_) in res and (id(c), a_) in res and c["adm"]:
                    ctx.count_case(c["key"] + (r_ + "=" + a_,), nontrivial=True)
                    if res[(id(c), r_)] != res[(id(c), a_)]:
                        ctx.disagreements += 1
                        broken.append(f"Ref != AVX kernel: {c['line'][:200]}")
                        w1 = lane_search(c, res[(id(c), r_)], res[(id(c), a_)])
                        witness = witness or dict(w1 or {}, kind="ref-vs-avx-kernel", request=c["line"], ref=res[(id(c), r_)][:400],
                                                  avx=res[(id(c), a_)][:400])
        if k64:
            s = k64[len(k64) // 3]
            ctx.samples.append({"kern": s["line"][:300], "favx": res.get((id(s), "favx"), "")[:200]})
            s = k128[len(k128) // 2]
            ctx.samples.append({"kern128": s["line"][:300], "navx": res.get((id(s), "navx"), "")[:200]})
        # third opinion on a sample of the normalisation lines: Python oracle vs the reference implementation
        for c in k64[::max(1, len(k64) // (300 if quick else 3000))]:
            if (id(c), "fref") in res and c["adm"]:
                w1 = lane_search(c, res[(id(c), "fref")], res.get((id(c), "favx"), ""))
                ctx.count_case(c["key"] + ("oracle",), nontrivial=True)
                if w1:
                    ctx.oracle_failures += 1
                    broken.append(f"python oracle != implementation: {w1}")
                    witness = witness or dict(w1, kind="kernel-vs-oracle")
        ctx.cov["kernel_lines"] = len(jobs)
        ctx.cov["kernel_lanes_compared"] = lanes_total

        # ---- NTT120 integer kernels: constants, then model vs nref / navx
        rc, co, _ = ctx.run_lines(binp, ["avx"], ["0 q120 be=nref op=consts", "1 q120 be=navx op=consts"])
        rc2, cm, _ = ctx.run_lines(drv, [], ["0 avx q120 be=navx op=consts"])
        consts = parse_lists(payload(co[0])) if co else {}
        mconsts = parse_lists(payload(cm[0])) if cm else {}
        ctx.cov["primes30_dump"] = consts
        ctx.count_case(("q120", "consts"), nontrivial=True)
        if not consts or payload(co[0]) != payload(co[1]) or consts.get("q") != mconsts.get("q") or consts.get("crt") != mconsts.get("crt"):
            broken.append(f"Primes30 constants: crate {consts} vs Lean model {mconsts}")
        else:
            # hypotheses of C10.mat_vec_bbc_no_overflow on the dumped BbcMeta
            hh = int(consts.get("bbc_h", 0))
            s2 = [int(v) for v in (consts.get("s2l", "0") + "," + consts.get("s2h", "0")).split(",")]
            if not (15 <= hh <= 32 and all(v < (1 << 30) for v in s2)):
                broken.append(f"BbcMeta outside the proved range: h={hh} s2={s2}")
        kq = gen_q120(rng.fork(), quick, consts)
        jobs = [(c, be) for c in kq for be in ("nref", "navx")]
        hl = [f"{i} q120 be={be} {c['line']}" for i, (c, be) in enumerate(jobs)]
        ml = [f"{i} avx q120 be={be} {c['line']}" for i, (c, be) in enumerate(jobs)]
        rc, hout, herr = ctx.run_lines(binp, ["avx"], hl)
        rc2, mout, merr = ctx.run_lines(drv, [], ml)
        if rc != 0 or len(hout) != len(jobs) or rc2 != 0 or len(mout) != len(jobs):
            broken.append(f"q120 run failed rc={rc}/{rc2} answers={len(hout)}/{len(mout)}/{len(jobs)} {herr[-200:]} {merr[-200:]}")
        resq = {}
        for i, (c, be) in enumerate(jobs):
            hh_ = payload(hout[i]) if i < len(hout) else "?"
            mm_ = payload(mout[i]) if i < len(mout) else "?"
            resq[(id(c), be)] = hh_
            ctx.count_case(c["key"] + (be,), nontrivial=True)
            bump("kern:q120")
            lanes_total += hh_.count(",") + 1
            if hh_ != mm_ or "stray" in hh_:
                ctx.disagreements += 1
                broken.append(f"q120 model != implementation: be={be} {c['line'][:160]} impl={hh_[:80]} model={mm_[:80]}")
                witness = witness or {"kind": "q120-model-vs-impl", "be": be, "request": c["line"][:2000], "impl": hh_[:400], "model": mm_[:400]}
        for c in kq:
            ctx.count_case(c["key"] + ("nref=navx",), nontrivial=True)
            if resq.get((id(c), "nref")) != resq.get((id(c), "navx")):
                ctx.disagreements += 1
                broken.append(f"Ref != AVX (q120): {c['line'][:200]}")
                witness = witness or {"kind": "ref-vs-avx-q120", "request": c["line"][:2000]}
        ctx.cov["q120_requests"] = len(jobs)
        ctx.cov["kernel_lanes_compared"] = lanes_total


        # ---- raw NTT120 kernels (C10.NttAvx.*): BitVec lane model vs navx, C07 reference model vs nref, nref vs navx
        rc, cb, _ = ctx.run_lines(binp, ["avx"], ["0 nk be=nref op=consts", "1 nk be=navx op=consts"])
        bconsts = parse_lists(payload(cb[0])) if cb else {}
        ctx.cov["bbb_meta_dump"] = bconsts
        if not bconsts or payload(cb[0]) != payload(cb[1]):
            broken.append(f"BbbMeta dump failed / differs between back ends: {cb}")
        else:
            # hypotheses of C10.NttAvx.ntt120_avx_bbb_kernel_eq_ref / ntt120_avx_bbc_kernel_eq_ref on the dumped metas
            vals = [int(bconsts.get("s1h", 0))] + [int(v) for kk in ("s2l", "s2h", "s3l", "s3h", "s4l", "s4h") for v in bconsts.get(kk, "0").split(",")]
            if not (int(bconsts.get("bbb_h", 99)) <= 32 and all(v < (1 << 32) for v in vals) and int(consts.get("bbc_h", 99)) <= 32):
                broken.append(f"BbbMeta / BbcMeta outside the proved range: {bconsts} {consts}")
        kn = gen_nk(rng.fork(), quick, consts, bconsts)
        jobs = [(c, be) for c in kn for be in ("nref", "navx")]
        hl = [f"{i} nk be={be} {c['line']}" for i, (c, be) in enumerate(jobs)]
        ml = [f"{i} avx nk be={be} {c['line']}" for i, (c, be) in enumerate(jobs)]
        rc, hout, herr = ctx.run_lines(binp, ["avx"], hl, timeout=3000)
        rc2, mout, merr = ctx.run_lines(drv, [], ml, timeout=3000)
        if rc != 0 or len(hout) != len(jobs) or rc2 != 0 or len(mout) != len(jobs):
            broken.append(f"nk run failed rc={rc}/{rc2} answers={len(hout)}/{len(mout)}/{len(jobs)} {herr[-200:]} {merr[-200:]}")
        resn = {}
        outside_diff = 0
        for i, (c, be) in enumerate(jobs):
            hh_ = payload(hout[i]) if i < len(hout) else "?"
            mm_ = payload(mout[i]) if i < len(mout) else "?"
            resn[(id(c), be)] = hh_
            ctx.count_case(c["key"] + (be,), nontrivial=not hh_.startswith(("panic", "err", "bad")))
            bump("kern:nk:" + c["op"])
            lanes_total += hh_.count(",") + 1
            if hh_ != mm_ or "stray" in hh_ or hh_.startswith(("panic", "bad")):
                ctx.disagreements += 1
                broken.append(f"nk model != implementation: be={be} {c['line'][:160]} impl={hh_[:80]} model={mm_[:80]}")
                witness = witness or {"kind": "nk-model-vs-impl", "be": be, "request": c["line"][:2000], "impl": hh_[:400], "model": mm_[:400]}
        for c in kn:
            same = resn.get((id(c), "nref")) == resn.get((id(c), "navx"))
            if c["eq"]:
                ctx.count_case(c["key"] + ("nref=navx",), nontrivial=True)
                if not same:
                    ctx.disagreements += 1
                    broken.append(f"Ref != AVX (nk, inside the proved range): {c['line'][:200]}")
                    witness = witness or {"kind": "ref-vs-avx-nk", "request": c["line"][:2000]}
            elif not same:
                outside_diff += 1
        ctx.cov["nk_requests"] = len(jobs)
        ctx.cov["nk_outside_range_ref_avx_differences"] = outside_diff
        ctx.cov["kernel_lanes_compared"] = lanes_total


        # ---- FFT64 family, integer by-constant convolution kernel (C10.CnvAvx.*): BitVec model vs fref / favx, fref vs favx, all value classes
        kc = gen_cnvk(rng.fork(), quick)
        jobs = [(c, be) for c in kc for be in ("fref", "favx")]
        hl = [f"{i} cnvk be={be} {c['line']}" for i, (c, be) in enumerate(jobs)]
        ml = [f"{i} avx cnvk be={be} {c['line']}" for i, (c, be) in enumerate(jobs)]
        rc, hout, herr = ctx.run_lines(binp, ["avx"], hl)
        rc2, mout, merr = ctx.run_lines(drv, [], ml)
        if rc != 0 or len(hout) != len(jobs) or rc2 != 0 or len(mout) != len(jobs):
            broken.append(f"cnvk run failed rc={rc}/{rc2} answers={len(hout)}/{len(mout)}/{len(jobs)} {herr[-200:]} {merr[-200:]}")
        resc = {}
        for i, (c, be) in enumerate(jobs):
            hh_ = payload(hout[i]) if i < len(hout) else "?"
            mm_ = payload(mout[i]) if i < len(mout) else "?"
            resc[(id(c), be)] = hh_
            ctx.count_case(c["key"] + (be,), nontrivial=True)
            bump("kern:cnvk")
            lanes_total += hh_.count(",") + 1
            if hh_ != mm_ or "stray" in hh_:
                ctx.disagreements += 1
                broken.append(f"cnvk model != implementation: be={be} {c['line'][:160]} impl={hh_[:80]} model={mm_[:80]}")
                witness = witness or {"kind": "cnvk-model-vs-impl", "be": be, "request": c["line"][:2000], "impl": hh_[:400], "model": mm_[:400]}
        for c in kc:
            ctx.count_case(c["key"] + ("fref=favx",), nontrivial=True)
            if resc.get((id(c), "fref")) != resc.get((id(c), "favx")):
                ctx.disagreements += 1
                broken.append(f"Ref != AVX (i64 by-constant convolution kernel, class {c['cls']}): {c['line'][:200]}")
                witness = witness or {"kind": "ref-vs-avx-cnvk", "request": "cnvk " + c["line"][:2000],
                                      "fref": resc.get((id(c), "fref"), "")[:400], "favx": resc.get((id(c), "favx"), "")[:400]}
        ctx.cov["cnvk_requests"] = len(jobs)
        ctx.cov["kernel_lanes_compared"] = lanes_total

    # ---- gate 3b: HAL operations, scheme programs, sampling on four back ends
    if binp:
        hal = gen_hal(rng.fork(), quick)
        sch = gen_scheme(rng.fork(), quick)
        smp = gen_sample(rng.fork(), quick)
        jobs = []
        for c, mode in [(c, "hal") for c in hal] + [(c, "scheme") for c in sch] + [(c, "sample") for c in smp]:
            bes = ["nref", "navx"] if c["n"] == 1 else ["fref", "favx", "nref", "navx"]
            for be in bes:
                jobs.append((c, mode, be))
        lines = [f"{i} {mode} be={be} {c['line']}" for i, (c, mode, be) in enumerate(jobs)]
        rc, out, err = ctx.run_lines(binp, ["avx"], lines, timeout=3000)
        if rc != 0 or len(out) != len(jobs):
            broken.append(f"pvh avx (hal) failed rc={rc} answers={len(out)}/{len(jobs)} {err[-300:]}")
        res = {}
        for i, (c, mode, be) in enumerate(jobs):
            res[(id(c), be)] = payload(out[i]) if i < len(out) else "?"
        outside = {"equal": 0, "different": 0}
        npanic = 0
        keyed = {}
        edge = {}
        fftraw = {"equal": 0, "different": 0}
        for c, mode in [(c, "hal") for c in hal] + [(c, "scheme") for c in sch] + [(c, "sample") for c in smp]:
            pairs = [("nref", "navx")]
            if c["n"] != 1:
                if c["dom"] in ("all", "fam"):
                    pairs.append(("fref", "favx"))
                if c["dom"] == "all":
                    pairs.append(("fref", "nref"))
            for (p, q) in pairs:
                rp, rq = res.get((id(c), p), "?"), res.get((id(c), q), "?")
                ctx.count_case(c["key"] + (p + "=" + q,), nontrivial=not rp.startswith("panic"))
                bump(c["fam"])
                if rp.startswith("panic") or rp in ("bad-op", "bad-be", "todo", "?"):
                    npanic += 1
                    if rp in ("bad-op", "bad-be", "todo", "?"):
                        broken.append(f"harness did not run: {mode} be={p} {c['line']} -> {rp}")
                if rp != rq:
                    ctx.disagreements += 1
                    what = "Ref != AVX" if p[0] == q[0] else "FFT64 != NTT120"
                    fk = finding_key(c, p, q, rp, rq)
                    if fk is not None:
                        keyed.setdefault(fk, []).append({"request": f"{mode} {c['line']}", p: rp[:300], q: rq[:300]})
                        continue
                    broken.append(f"{what}: {mode} {c['line']}")
                    if witness is None:
                        # re-run with the explicit inputs printed
                        l2 = [f"0 {mode} be={p} {c['line']} dump=1", f"1 {mode} be={q} {c['line']} dump=1"]
                        _, o2, _ = ctx.run_lines(binp, ["avx"], l2)
                        witness = {"kind": what, "request": f"{mode} {c['line']}", p: (o2[0] if o2 else rp)[:6000],
                                   q: (o2[1] if len(o2) > 1 else rq)[:6000],
                                   "rerun": f"printf '0 {mode} be={p} {c['line']} dump=1\\n' | harness/target/release/pvh avx"}
            if c["dom"] == "ntt" and c["n"] != 1:
                same = res.get((id(c), "fref")) == res.get((id(c), "favx"))
                outside["equal" if same else "different"] += 1
            if c["dom"] == "edge":
                for be in ("fref", "favx"):
                    edge[be + ("=exact" if res.get((id(c), be)) == res.get((id(c), "nref")) else "!=exact")] = \
                        edge.get(be + ("=exact" if res.get((id(c), be)) == res.get((id(c), "nref")) else "!=exact"), 0) + 1
            if c["dom"] == "fftraw":
                same = res.get((id(c), "fref")) == res.get((id(c), "favx"))
                fftraw["equal" if same else "different"] += 1
        for fk, hits in keyed.items():
            ctx.log(f"defect class {fk}: {len(hits)} differing cases")
            ctx.violation(("Ref != AVX: " if fk == K_REIM else "FFT64 != NTT120: ") + fk,
                          {"key": fk, "hits": len(hits), "witness": hits[0], "more": hits[1:6],
                           "rerun": "printf '0 " + hits[0]["request"] + " be=<back end> dump=1\\n' | harness/target/release/pvh avx"}, True, key=fk)
        # digit-width histogram (two's-complement width incl. sign bit) of the operand digits fed to every integer (non-FFT) family
        INT_FAMS = ("vec_znx", "vec_znx_normalize", "vec_znx_shift", "vec_znx_ring", "vec_znx_big", "big_normalize")
        wcases = [c for c in hal if c["fam"].startswith("int_full:") or c["fam"] in INT_FAMS or c["op"] == "cnv_by_const_apply"]
        wl = [f"{i} hal be=fref {c['line']} widths=1" for i, c in enumerate(wcases)]
        rcw, wout, werr = ctx.run_lines(binp, ["avx"], wl, timeout=3000)
        whist = {}
        for i, c in enumerate(wcases):
            pw = payload(wout[i]) if i < len(wout) else "?"
            try:
                h = [int(v) for v in pw.split(",")]
            except ValueError:
                broken.append(f"widths request failed: {c['line'][:120]} -> {pw[:80]}")
                continue
            famk = c["fam"] if c["fam"] != "cnv" else "cnv_by_const(norm)"
            acc = whist.setdefault(famk, [0] * 5)
            for j in range(5):
                acc[j] += h[j]
        ctx.cov["digit_width_histogram_buckets"] = ["<=16 bits", "17..32", "33..48", "49..63", "64"]
        ctx.cov["digit_width_histogram_by_family"] = whist
        for famk, h in sorted(whist.items()):
            ctx.log(f"digit widths {famk}: <=16:{h[0]} 17-32:{h[1]} 33-48:{h[2]} 49-63:{h[3]} 64:{h[4]}")
            if famk.startswith("int_full:") and h[3] + h[4] == 0:
                broken.append(f"integer family {famk} was not exercised with full-range digits")
        ctx.cov["keyed_defect_hits"] = {k: len(v) for k, v in keyed.items()}
        ctx.cov["fft64_pair_outside_conversion_bound"] = outside
        ctx.cov["fft64_at_a_priori_bound_edge_worst_case"] = edge
        ctx.cov["fft64_forward_transform_raw_f64_bits_ref_vs_avx"] = fftraw
        ctx.cov["hal_requests"] = len(jobs)
        ctx.cov["hal_panics"] = npanic
        if hal:
            for s in (hal[7], sch[0], smp[0]):
                ctx.samples.append({"request": s["line"][:200], "navx": res.get((id(s), "navx"), "")[:160]})
    # ---- gate 3c: scheme-level families of the other slices' harnesses, run on four back ends and byte-compared:
    #      key-switch / automorphism / trace / packing (pvh ks, generators of C03), blind rotation (pvh lut, C14)
    if binp:
        from . import c03
        r3 = rng.fork()
        kcases = []
        for k in range(24 if quick else 240):
            n = [8, 16, 32][k % 3]
            op = ["ks", "ks_assign", "auto", "trace", "ks", "auto_assign"][k % 6]
            kcases.append(c03.shape(r3, op, n, ntt_only=(k % 8 == 7), force={"dsize": [3, 4, 1, 2][k % 4], "cls": ["enc", "raw", "ext"][k % 3]}))
        class _T:       # c03.generate_pack only reads .tier
            tier = ctx.tier
        pk = c03.generate_pack(_T, r3)
        kcases += pk[:: max(1, len(pk) // (40 if quick else 400))]
        names = {"fref": "fft64ref", "favx": "fft64avx", "nref": "ntt120ref", "navx": "ntt120avx"}
        jobs = [(c, be) for c in kcases for be in ("fref", "favx", "nref", "navx")]
        lines = [c03.harness_line(i, c, names[be], i % 2) for i, (c, be) in enumerate(jobs)]
        rc, out, err = ctx.run_lines(binp, ["ks"], lines, timeout=3000)
        if rc != 0 or len(out) != len(jobs):
            broken.append(f"pvh ks failed rc={rc} answers={len(out)}/{len(jobs)} {err[-300:]}")
        resk = {(id(c), be): payload(out[i]) if i < len(out) else "?" for i, (c, be) in enumerate(jobs)}
        for c in kcases:
            infft = c03.in_fft_domain(c) and c["bkey"] <= 17
            pairs = [("nref", "navx"), ("fref", "favx")] + ([("fref", "nref")] if infft else [])
            for (p_, q_) in pairs:
                rp, rq = resk.get((id(c), p_), "?"), resk.get((id(c), q_), "?")
                if p_[0] == "f" and not infft and p_[0] == q_[0]:
                    continue            # FFT64 outside its magnitude domain: not demanded
                ctx.count_case(("ks", c["op"], c["n"], c["dsize"], c["bin"] == c["bkey"], c["bout"] == c["bkey"], c["rin"], c["rout"], p_ + "=" + q_),
                               nontrivial=rp.startswith("ok"))
                bump("ks/pack/trace")
                if rp != rq:
                    ctx.disagreements += 1
                    what = "Ref != AVX" if p_[0] == q_[0] else "FFT64 != NTT120"
                    broken.append(f"{what}: ks {c03.harness_line(0, c, names[p_], 0)[:300]}")
                    witness = witness or {"kind": what, "request": c03.harness_line(0, c, names[p_], 0), "other_backend": names[q_],
                                          p_: rp[-600:], q_: rq[-600:], "rerun": "printf '<request>\\n' | harness/target/release/pvh ks"}
        ctx.cov["ks_pack_requests"] = len(jobs)
        # blind rotation (standard, block-binary, extended), decrypted limbs compared
        bcases = []
        for (ng, nl, block, ext, dist) in [(32, 6, 1, 1, "block"), (32, 8, 4, 1, "block"), (16, 6, 3, 2, "block"), (32, 6, 2, 4, "block"),
                                           (32, 6, 1, 1, "hw"), (64, 16, 8, 2, "block")] + ([] if quick else [(256, 16, 4, 1, "block"), (64, 8, 4, 8, "block")]):
            for p_ in (1, 2, 3):
                for msg in ([0, (1 << p_) - 1] if quick else range(1 << p_)):
                    bcases.append(dict(nglwe=ng, nlwe=nl, block=block, ext=ext, dist=dist, p=p_, msg=msg, left=(msg + p_) % 2, seed=r3.range(1, 200),
                                       rank=2 if (msg + p_) % 5 == 0 else 1, lweb=19))
        jobs = [(c, be) for c in bcases for be in ("fref", "favx", "nref", "navx")]
        lines = [f"{i} blind be={names[be]} " + " ".join(f"{k}={v}" for k, v in c.items()) for i, (c, be) in enumerate(jobs)]
        rc, out, err = ctx.run_lines(binp, ["lut"], lines, timeout=3000)
        if rc != 0 or len(out) != len(jobs):
            broken.append(f"pvh lut blind failed rc={rc} answers={len(out)}/{len(jobs)} {err[-300:]}")
        resb = {(id(c), be): payload(out[i]) if i < len(out) else "?" for i, (c, be) in enumerate(jobs)}
        for c in bcases:
            for (p_, q_) in (("nref", "navx"), ("fref", "favx"), ("fref", "nref")):
                rp, rq = resb.get((id(c), p_), "?"), resb.get((id(c), q_), "?")
                ctx.count_case(("blind", c["nglwe"], c["block"], c["ext"], c["dist"], c["p"], c["rank"], p_ + "=" + q_), nontrivial=rp.startswith("ok"))
                bump("blind_rotation")
                if rp != rq:
                    ctx.disagreements += 1
                    what = "Ref != AVX" if p_[0] == q_[0] else "FFT64 != NTT120"
                    broken.append(f"{what}: blind {c}")
                    witness = witness or {"kind": what, "request": "blind " + " ".join(f"{k}={v}" for k, v in c.items()), p_: rp[:600], q_: rq[:600]}
        ctx.cov["blind_requests"] = len(jobs)
    ctx.cov["comparisons_by_family"] = fam_counts

    # ---- verdict
    if broken:
        ctx.log("broken:", *broken[:8])
        if witness:
            ctx.violation("back ends / lane model disagree", {"witness": witness, "broken": broken[:30], "rerun": "./check C10 --tier quick"}, True)
        else:
            ctx.violation("C10 obligation or correspondence no longer checks", {"broken": broken[:30]}, False)
    return ctx.finish(rule="one case = one (operation, parameters, back-end pair or model-vs-back-end) comparison of complete outputs; "
                           "distinct = (family, op, radix / shift class, shape class, value class, tail length, pair); kernel lines carry "
                           "the cross product of the 64-bit (128-bit) boundary values with the boundary carries as lanes (counted in "
                           "kernel_lanes_compared); non-trivial = the call returned a value (no panic)")
