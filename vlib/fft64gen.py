"""FFT64 floating-point correspondence (part of C07): `pvh fft64` (harness/src/cmd_fft64.rs — the reference
`f64` code of poulpy_cpu_ref::reference::fft64::reim and the svp / vmp / idft HAL path of FFT64Ref) against the
exact IEEE-754 binary64 model (lean/Poulpy/Model/{F64,Fft64}.lean, lean/Poulpy/Driver/Fft64.lean).

Everything is compared BIT FOR BIT: every `f64` travels as its 64-bit pattern.  IEEE arithmetic is
deterministic, so a single differing bit means the model's operation order, rounding or table position is wrong.

Gates (all must hold):
  1. scalar `+ - *` and unary `-`, `as f64`, `(x * 2^-k).round() as i64` on boundary patterns (ties, subnormals,
     signed zeros, overflow to inf, |x| ≥ 2^53, saturation);
  2. twiddle tables: dumped from the Rust (`ReimFFTTable::new`, `ReimIFFTTable::new`; libm is NOT modelled) and
     handed to the model as input; every entry the model reads (positions `Fft64.fwdIdx` / `invIdx`, printed by the
     driver) is checked numerically against the true root of unity `e^{±2πi·j/2}` (`Fft64.jpar`) with exact
     fixed-point interval arithmetic: this establishes the hypothesis `TableAccurate τ` of the error theorems
     for the dumped tables (checked, not proved; listed in the trusted base);
  3. whole transforms `fft_ref` / `ifft_ref`, `reim_mul`, `reim_addmul`, and the HAL pipelines svp and vmp (one column)
     for n = 2 … 1024 (quick) / 2^16 (thorough) on zero, impulse, all-max aligned, alternating, random and sparse inputs at
     magnitudes up to and beyond the exactness domain;
  4. independent oracle (Python big integers, Kronecker substitution): inside the magnitude domain the pipeline
     result must equal the exact negacyclic product.
Evidence only: model-only worst-case search of the largest magnitude at which the pipeline is still exact."""

RULE = ("fft64: IEEE-754 binary64 bit patterns through f64 add/sub/mul/neg, i64->f64, f64->i64, fft_ref/ifft_ref with the crate's own "
        "tables, reim_mul/addmul, svp and vmp HAL pipelines of FFT64Ref; n = 2..1024 (quick) / 65536 (thorough); classes zero/impulse/"
        "allmax/alternating/random/sparse at total magnitudes 2^20..2^56; distinct = (op, K, class, magnitude bucket, rows)")

PREC = 300
ONE = 1 << PREC
EPS = 1 << 20  # enclosure half-width in units of 2^-PREC (covers every truncation below with a wide margin)


def _atan_inv(q):
    """atan(1/q) in fixed point (alternating series, truncated terms)"""
    x = ONE // q
    q2 = q * q
    s, t, k = 0, x, 1
    while t:
        s += t // k if (k // 2) % 2 == 0 else -(t // k)
        t //= q2
        k += 2
    return s


PI = 16 * _atan_inv(5) - 4 * _atan_inv(239)


def _cos_sin_small(x):
    """cos, sin of fixed-point x in [0, pi/4] by Taylor series"""
    c, s = 0, 0
    t, k = ONE, 0
    while t:
        if k % 4 == 0:
            c += t
        elif k % 4 == 1:
            s += t
        elif k % 4 == 2:
            c -= t
        else:
            s -= t
        k += 1
        t = (t * x >> PREC) // k
    return c, s


def cos_sin_turn(num, log):
    """(cos, sin)(2*pi*num/2^log) in fixed point, each within EPS·2^-PREC of the true value"""
    den = 1 << log
    t = num % den
    o, r = divmod(8 * t, den)  # octant, remainder r/den in [0,1)
    if o % 2 == 0:
        x = (PI * r // den) >> 2
    else:
        x = (PI * (den - r) // den) >> 2
    c, s = _cos_sin_small(x)
    return [(c, s), (s, c), (-s, c), (-c, s), (-c, -s), (-s, -c), (s, -c), (c, -s)][o]


def f64_fixed(b):
    """bit pattern of a finite double of magnitude <= 2 -> fixed point (exact), or None"""
    sgn, ef, mf = b >> 63, (b >> 52) & 0x7FF, b & ((1 << 52) - 1)
    if ef == 0x7FF:
        return None
    m, e = (mf, -1074) if ef == 0 else (mf | (1 << 52), ef - 1075)
    sh = PREC + e
    if sh < 0:
        if m & ((1 << -sh) - 1):
            return None
        v = m >> -sh
    else:
        v = m << sh
    return -v if sgn else v


def isqrt_up(x):
    import math
    r = math.isqrt(x)
    return r if r * r == x else r + 1


def table_accuracy(idx_line, table, inverse):
    """max over all blocks of the modulus |stored twiddle - exact root| (upper bound, fixed point), and a failure list"""
    worst, bad, n = 0, [], 0
    if idx_line == "-":
        return 0, [], 0
    for ent in idx_line.split(","):
        lvl, blk, ire, iim, im, jn, jl = map(int, ent.split(":"))
        # twiddle angle j/2 turns; the i-variant stores the twiddle rotated by -1/4 turn
        num, log = jn, jl + 1
        if im:
            num -= 1 << (log - 2)
        c, s = cos_sin_turn(num, log)
        if inverse:
            s = -s
        wr, wi = f64_fixed(table[ire]), f64_fixed(table[iim])
        n += 1
        if wr is None or wi is None:
            bad.append(ent)
            continue
        dr, di = abs(wr - c) + EPS, abs(wi - s) + EPS
        d = isqrt_up(dr * dr + di * di)
        worst = max(worst, d)
    return worst, bad, n


# ------------------------------------------------------------------ oracle
def negacyclic(a, b):
    """exact product in Z[X]/(X^n+1) by Kronecker substitution"""
    n = len(a)
    ma = max(1, max(abs(x) for x in a))
    mb = max(1, max(abs(x) for x in b))
    w = (n * ma * mb).bit_length() + 2
    off = 1 << (w - 1)

    def packp(v):
        r = 0
        for x in reversed(v):
            r = (r << w) + x
        return r

    p = packp(a) * packp(b)
    neg = p < 0
    p = abs(p)
    # signed digit extraction
    out = []
    carry = 0
    mask = (1 << w) - 1
    for _ in range(2 * n - 1):
        d = (p & mask) + carry
        p >>= w
        if d >= off:
            d -= 1 << w
            carry = 1
        else:
            carry = 0
        out.append(-d if neg else d)
    out.append(0)
    return [out[i] - out[i + n] for i in range(n)]


# ------------------------------------------------------------------ value classes
def coeff_vec(rng, n, bits, cls):
    """n coefficients of magnitude < 2^bits"""
    M = (1 << bits) - 1
    if cls == "zero" or bits <= 0:
        return [0] * n
    if cls == "impulse":
        v = [0] * n
        v[rng.below(n)] = rng.choice([M, -M, 1, -1])
        return v
    if cls == "allmax":
        return [M] * n
    if cls == "allmin":
        return [-M] * n
    if cls == "alt":
        return [M if j % 2 == 0 else -M for j in range(n)]
    if cls == "sparse":
        v = [0] * n
        for _ in range(max(1, n // 8)):
            v[rng.below(n)] = rng.range(-M, M)
        return v
    if cls == "randsign":
        return [M if rng.below(2) else -M for _ in range(n)]
    return [rng.range(-M, M) for _ in range(n)]


CLASSES = ["zero", "impulse", "allmax", "alt", "random", "sparse", "randsign", "allmin"]

SPECIAL = [0, 1 << 63, 1, (1 << 63) | 1, (1 << 52) - 1, 1 << 52, (1 << 52) + 1, 0x7FEFFFFFFFFFFFFF, 0xFFEFFFFFFFFFFFFF,
           0x3FF0000000000000, 0xBFF0000000000000, 0x3FF0000000000001, 0x3CA0000000000000, 0x3C90000000000000,
           0x4340000000000000, 0x4340000000000001, 0x0010000000000000, 0x000FFFFFFFFFFFFF, 0x3FE0000000000000,
           0x7FE0000000000000, 0x0000000000000002, 0x8000000000000003, 0x433FFFFFFFFFFFFF, 0xC33FFFFFFFFFFFFF]


def f64_pattern(rng):
    """-> (pattern of a finite double, class)"""
    c = rng.below(10)
    s = rng.below(2) << 63
    if c < 2:
        return rng.choice(SPECIAL), "special"
    if c < 4:
        return s | (rng.range(1000, 1046) << 52) | rng.below(1 << 52), "near-1"
    if c == 4:
        return s | (rng.range(0, 3) << 52) | rng.below(1 << 52), "subnormal-edge"
    if c == 5:
        return s | (rng.range(1020, 1030) << 52) | (rng.below(8) << rng.range(0, 49)), "few-bits(ties)"
    if c == 6:
        return s | (rng.range(2040, 2046) << 52) | rng.below(1 << 52), "huge"
    if c == 7:
        # integers and half-integers (ties of .round())
        v = rng.below(1 << rng.range(1, 52)) * 2 + 1
        L = v.bit_length()
        ef = 1022 + L - rng.range(0, 2)
        return s | (ef << 52) | ((v << (53 - L)) & ((1 << 52) - 1)), "half-integer"
    return s | (rng.range(0, 2046) << 52) | rng.below(1 << 52), "any"


def i64_value(rng):
    c = rng.below(8)
    if c == 0:
        return rng.choice([0, 1, -1, (1 << 63) - 1, -(1 << 63), (1 << 53), (1 << 53) + 1, -(1 << 53) - 1, (1 << 53) - 1]), "edge"
    if c == 1:
        return rng.choice([1, -1]) * ((1 << rng.range(53, 62)) + rng.choice([1, 2, 3, (1 << 9), (1 << 10), (1 << 10) + 1, 3 << 9])), ">=2^53(RNE)"
    if c == 2:
        return rng.range(-(1 << 63), (1 << 63) - 1), "any"
    b = rng.range(1, 53)
    return rng.range(-(1 << b), 1 << b), "<2^53"


def csv(v):
    return ",".join(map(str, v)) if v else "-"


def ans_of(lines, k):
    if k < len(lines) and " " in lines[k]:
        return lines[k].split(" ", 1)[1]
    return "missing"


def magnitude_split(rng, total_bits, K, rows):
    """digit widths (ba, bb) with n·rows·2^ba·2^bb ≈ 2^total_bits"""
    budget = total_bits - (K + 1) - max(0, (rows - 1).bit_length())
    budget = max(2, budget)
    ba = rng.range(1, budget - 1) if rng.below(3) else budget // 2
    return ba, max(1, budget - ba)


# demanded exactness: two bits inside the measured worst-case boundary (DESIGN §11.6: exact up to 2^49 for n ≤ 4096, 2^48 beyond)
MUST_BE_EXACT_BITS = 47


def gate(ctx, binp, drv):
    import time
    quick = ctx.tier == "quick"
    broken = []
    rng = ctx.rng.fork()
    kmax = 9 if quick else 15
    t0 = time.time()

    def both(hlines, dlines):
        _, iout, _ = ctx.run_lines(binp, ["fft64"], hlines)
        _, mout, _ = ctx.run_lines(drv, [], dlines)
        return iout, mout

    def disagree(what, req, a, b, found=False, extra=None):
        ctx.disagreements += 1
        w = {"request": req[:4000], "implementation": a[:1500], "model": b[:1500],
             "replay": "printf '0 <request>\\n' | harness/target/release/pvh fft64   (model: lean/.lake/build/bin/pdriver with 'fft64' after the id and the omg=/iomg= fields from `tab`)"}
        if extra:
            w.update(extra)
        ctx.violation(what, w, found)

    # ---------------------------------------------------------------- 1. scalar operations
    hist = {}
    N = 4000 if quick else 40000
    A = [f64_pattern(rng) for _ in range(N)]
    B = [f64_pattern(rng) for _ in range(N)]
    lines = [f"{i} {op} a={csv([x for x, _ in A])} b={csv([x for x, _ in B])}" for i, op in enumerate(["fadd", "fsub", "fmul"])]
    lines.append(f"3 fneg a={csv([x for x, _ in A])}")
    iout, mout = both(lines, [l.replace(" ", " fft64 ", 1) for l in lines])
    for i, op in enumerate(["fadd", "fsub", "fmul", "fneg"]):
        a, b = ans_of(iout, i).split(","), ans_of(mout, i).split(",")
        nb = 0
        for j in range(N):
            ok = j < len(a) and j < len(b) and a[j] == b[j]
            ctx.count_case(("fft64-scalar", op, A[j][1], B[j][1] if op != "fneg" else ""), True)
            if not ok:
                nb += 1
                if nb <= 2:
                    disagree(f"f64 {op}: hardware and binary64 model differ", f"{op} a={A[j][0]} b={B[j][0]}", a[j] if j < len(a) else "missing", b[j] if j < len(b) else "missing", True)
        hist[op] = N
        if nb:
            broken.append(f"{nb} scalar {op} disagreements")
    # fused multiply-add (one rounding): random triples and cancellation triples c = -fl(a*b)
    Cc = [f64_pattern(rng) for _ in range(N)]
    prod = ans_of(iout, 2).split(",")
    Cn = [(int(prod[j]) ^ (1 << 63)) if j < len(prod) and prod[j].isdigit() and ((int(prod[j]) >> 52) & 0x7FF) != 0x7FF else Cc[j][0] for j in range(N)]
    fl = [f"0 ffma a={csv([x for x, _ in A])} b={csv([x for x, _ in B])} c={csv([x for x, _ in Cc])}",
          f"1 ffma a={csv([x for x, _ in A])} b={csv([x for x, _ in B])} c={csv(Cn)}"]
    fio, fmo = both(fl, [l.replace(" ", " fft64 ", 1) for l in fl])
    for i in range(2):
        a, b = ans_of(fio, i).split(","), ans_of(fmo, i).split(",")
        nb = 0
        for j in range(N):
            ctx.count_case(("fft64-scalar", "ffma", A[j][1], B[j][1], "cancel" if i else Cc[j][1]), True)
            if not (j < len(a) and j < len(b) and a[j] == b[j]):
                nb += 1
                if nb <= 2:
                    disagree("f64 fma: hardware and binary64 model differ", f"ffma a={A[j][0]} b={B[j][0]} c={(Cn[j] if i else Cc[j][0])}", a[j] if j < len(a) else "missing", b[j] if j < len(b) else "missing", True)
        if nb:
            broken.append(f"{nb} scalar ffma disagreements")
    hist["ffma"] = 2 * N
    # conversions
    X = [i64_value(rng) for _ in range(N)]
    P = [f64_pattern(rng) for _ in range(N)]
    convs = [f"0 from x={csv([x for x, _ in X])}"] + [f"{1 + k} to k={k} x={csv([x for x, _ in P])}" for k in (0, 1, 5, 15)]
    iout, mout = both(convs, [l.replace(" ", " fft64 ", 1) for l in convs])
    for i, l in enumerate(convs):
        a, b = ans_of(iout, i).split(","), ans_of(mout, i).split(",")
        src = X if i == 0 else P
        nb = 0
        for j in range(N):
            ctx.count_case(("fft64-conv", l.split(" ")[1], l.split(" ")[2] if i else "", src[j][1]), True)
            if not (j < len(a) and j < len(b) and a[j] == b[j]):
                nb += 1
                if nb <= 2:
                    disagree("f64 conversion: implementation and model differ", " ".join(l.split(" ")[1:3]) + f" x={src[j][0]}", a[j] if j < len(a) else "missing", b[j] if j < len(b) else "missing", True)
        if nb:
            broken.append(f"{nb} conversion disagreements in {l[:20]}")
    # FFT64Avx conversions: range assertion of reim_from_znx_i64_bnd50_fma, magic-constant lanes + scalar tail; bnd63 shift conversion
    Xa = [rng.choice([0, 1, -1, (1 << 50) - 1, -(1 << 50) + 1, rng.range(-(1 << 50) + 1, (1 << 50) - 1), rng.range(-1000, 1000)]) for _ in range(N + 3)]
    aconv = [f"0 from be=avx x={csv(Xa)}", "1 from be=avx x=1125899906842624,0,0,0", "2 from be=avx x=3,-1125899906842624", "3 from be=avx x=5,-7,9"] + \
            [f"{4 + i} to be=avx k={k} x={csv([x for x, _ in P][:N - (i % 4)])}" for i, k in enumerate((0, 1, 2, 5, 15))]
    iout, mout = both(aconv, [l.replace(" ", " fft64 ", 1) for l in aconv])
    for i, l in enumerate(aconv):
        a, b = ans_of(iout, i), ans_of(mout, i)
        ctx.count_case(("fft64avx-conv", i), True)
        if a != b:
            av, bv = a.split(","), b.split(",")
            j = next((j for j in range(min(len(av), len(bv))) if av[j] != bv[j]), 0)
            broken.append(f"avx conversion {l[:24]}")
            disagree("FFT64Avx conversion: implementation and model differ", " ".join(l.split(" ")[1:4]) + f" first differing index {j}", av[j] if j < len(av) else a[:80], bv[j] if j < len(bv) else b[:80], True)
    hist["from"] = N
    hist["to"] = 4 * N
    hist["avx-from"] = N + 3
    hist["avx-to"] = 5 * N
    ctx.samples.append({"request": f"fft64 fmul a={A[0][0]} b={B[0][0]}"})

    # ---------------------------------------------------------------- 2. tables: dump, positions, numerical accuracy
    Ks = list(range(0, kmax + 1))
    _, tout, _ = ctx.run_lines(binp, ["fft64"], [f"{k} tab k={k}" for k in Ks])
    tabs = {}
    for i, k in enumerate(Ks):
        t = ans_of(tout, i).split(" ")
        if len(t) != 2 or not t[0].startswith("fwd=") or not t[1].startswith("inv="):
            broken.append(f"table dump k={k}: {ans_of(tout, i)[:80]}")
            continue
        tabs[k] = (t[0][4:], t[1][4:])
    idx_lines = [f"{2 * i + d} fft64 idx k={k} dir={'fi'[d]}" for i, k in enumerate(Ks) for d in (0, 1)]
    _, xout, _ = ctx.run_lines(drv, [], idx_lines)
    tau_bits = 51  # Fft64.τ51 of the numeric theorems (Props/C07: fft64_domain_numeric)
    tau = ONE >> tau_bits
    acc = {}
    worst_all = 0
    for i, k in enumerate(Ks):
        if k not in tabs:
            continue
        for d in (0, 1):
            table = list(map(int, tabs[k][d].split(",")))
            w, bad, cnt = table_accuracy(ans_of(xout, 2 * i + d), table, d == 1)
            worst_all = max(worst_all, w)
            acc[f"K={k}/{'inv' if d else 'fwd'}"] = {"twiddles": cnt, "max_err_in_2^-53": round(w / (ONE >> 53), 4)}
            ctx.count_case(("fft64-table-accuracy", k, d), cnt > 0)
            if bad or w > tau:
                broken.append(f"twiddle table k={k} dir={d} not within 2^-{tau_bits} of the roots of unity")
                ctx.violation("FFT64 twiddle table is not accurate (hypothesis TableAccurate of the error theorems fails numerically)",
                              {"k": k, "inverse": bool(d), "max_err_in_2^-53": w / (ONE >> 53), "bad_entries": bad[:5],
                               "replay": f"printf '0 tab k={k}\\n' | harness/target/release/pvh fft64"}, True)
    ctx.cov["fft64_twiddle_accuracy"] = {"tau": f"2^-{tau_bits}", "max_modulus_error_in_units_of_2^-53": round(worst_all / (ONE >> 53), 4),
                                         "per_table": acc if quick else {k: v for k, v in acc.items() if k.startswith(("K=9/", "K=12/", "K=15/"))},
                                         "method": "positions and angles from the Lean driver (Fft64.fwdIdx/invIdx/jpar); cos/sin by 300-bit fixed-point Taylor series with octant reduction, enclosure 2^-280"}

    # ---------------------------------------------------------------- 3. transforms and pipelines
    def omg(k, d):
        return tabs[k][d]

    # regression corpus (corpus/C07/fft64.req): boundary requests in harness format
    import os
    cpath = os.path.join(os.path.dirname(os.path.dirname(os.path.abspath(__file__))), "corpus", "C07", "fft64.req")
    if os.path.exists(cpath):
        creq = [l.strip() for l in open(cpath) if l.strip() and not l.startswith("#")]
        hl, dl = [], []
        for i, l in enumerate(creq):
            t = l.split(" ")
            kk = next((int(x[2:]) for x in t if x.startswith("k=")), 0)
            extra = ""
            if t[0] in ("fft", "ifft", "pipe", "vmp") and kk in tabs:
                extra = f" omg={omg(kk, 1 if t[0] == 'ifft' else 0)}" + (f" iomg={omg(kk, 1)}" if t[0] in ("pipe", "vmp") else "")
            hl.append(f"{i} {l}")
            dl.append(f"{i} fft64 {t[0]}{extra} {' '.join(t[1:])}")
        iout, mout = both(hl, dl)
        for i, l in enumerate(creq):
            a, b = ans_of(iout, i), ans_of(mout, i)
            ctx.count_case(("fft64-corpus", i), True)
            if a != b:
                broken.append(f"fft64 corpus line {i}")
                disagree("fft64 (corpus): implementation and model differ", l, a, b, True)
        ctx.cov["fft64_corpus_lines"] = len(creq)

    cases = []  # (harness line, driver line, meta)
    reps = 2 if quick else 3
    for k in Ks:
        if k not in tabs:
            continue
        n = 2 << k
        rep_k = reps if k <= 12 else 1
        for cls in CLASSES:
            for _ in range(rep_k if cls in ("random", "sparse", "randsign", "impulse") else 1):
                bits = rng.choice([1, 8, 30, 50, 52, 62])
                x = coeff_vec(rng, n, bits, cls)
                cases.append(("xform", k, cls, bits, x))
    # run from -> fft -> ifft -> to chain, each stage compared bit for bit (the implementation's output feeds the next stage on both sides)
    # every case runs on both back ends (be=avx: FFT64Avx kernels / Model/Fft64Avx.lean); |x| ≤ 2^50-1 there (range assertion)
    cases = [c + ("ref",) for c in cases] + [("xform", c[1], c[2], min(c[3], 50), [max(-(1 << 50) + 1, min((1 << 50) - 1, v)) for v in c[4]], "avx") for c in cases]
    stage_in = [csv(c[4]) for c in cases]
    nb_total = 0
    for stage in ("from", "fft", "ifft", "to"):
        hl, dl = [], []
        for i, c in enumerate(cases):
            k = c[1]
            be = " be=avx" if c[5] == "avx" else ""
            if stage == "from":
                hl.append(f"{i} from{be} x={stage_in[i]}")
                dl.append(f"{i} fft64 from{be} x={stage_in[i]}")
            elif stage == "to":
                hl.append(f"{i} to{be} k={k} x={stage_in[i]}")
                dl.append(f"{i} fft64 to{be} k={k} x={stage_in[i]}")
            else:
                hl.append(f"{i} {stage}{be} k={k} x={stage_in[i]}")
                dl.append(f"{i} fft64 {stage}{be} k={k} omg={omg(k, 0 if stage == 'fft' else 1)} x={stage_in[i]}")
        iout, mout = both(hl, dl)
        nxt = []
        for i, c in enumerate(cases):
            a, b = ans_of(iout, i), ans_of(mout, i)
            nontriv = c[2] != "zero"
            ctx.count_case(("fft64", stage, c[1], c[2], c[3], c[5]), nontriv)
            hist[stage + "-vec-" + c[5]] = hist.get(stage + "-vec-" + c[5], 0) + 1
            if a != b:
                nb_total += 1
                if nb_total <= 3:
                    av, bv = a.split(","), b.split(",")
                    first = next((j for j in range(min(len(av), len(bv))) if av[j] != bv[j]), -1)
                    disagree(f"fft64 {stage} ({c[5]}): implementation and model differ (bit patterns)", hl[i].split(" ", 1)[1], a, b, True,
                             {"k": c[1], "class": c[2], "first_differing_index": first, "backend": c[5]})
            nxt.append(a)
        stage_in = nxt
        if nb_total:
            broken.append(f"{nb_total} fft64 {stage} disagreements")
            break
    # round trip property on the implementation: to(ifft(fft(from x))) = x while n·|x| ≤ 2^47 (oracle on the transform pair)
    if not nb_total:
        for i, c in enumerate(cases):
            if c[3] + c[1] + 1 <= MUST_BE_EXACT_BITS and stage_in[i] != csv(c[4]):
                ctx.oracle_failures += 1
                disagree("fft64: idft(dft(x)) != x inside the conversion range", f"k={c[1]} class={c[2]} bits={c[3]}", stage_in[i][:300], csv(c[4])[:300], True)
                broken.append("round trip")
                break
    ctx.samples.append({"request": f"fft64 fft k=3 omg=<tab> x=<from {csv(coeff_vec(rng, 16, 8, 'random'))}>"})

    # mul / addmul on transform outputs and on raw patterns
    hl, dl, metas = [], [], []
    for k in [k for k in Ks if k in tabs and k <= 9]:
        m = 1 << k
        for _ in range(3):
            va = [f64_pattern(rng)[0] for _ in range(2 * m)] if rng.below(2) else [rng.range(1000, 1060) << 52 | rng.below(1 << 52) | (rng.below(2) << 63) for _ in range(2 * m)]
            vb = [rng.range(1000, 1060) << 52 | rng.below(1 << 52) | (rng.below(2) << 63) for _ in range(2 * m)]
            vr = [rng.range(1000, 1080) << 52 | rng.below(1 << 52) | (rng.below(2) << 63) for _ in range(2 * m)]
            for be in ("", " be=avx"):
                i = len(hl)
                if rng.below(2):
                    hl.append(f"{i} mul{be} k={k} a={csv(va)} b={csv(vb)}")
                    metas.append(("mul" + be[4:], k))
                else:
                    hl.append(f"{i} addmul{be} k={k} r={csv(vr)} a={csv(va)} b={csv(vb)}")
                    metas.append(("addmul" + be[4:], k))
                dl.append(hl[-1].replace(" ", " fft64 ", 1))
    iout, mout = both(hl, dl)
    nb = 0
    for i, mt in enumerate(metas):
        a, b = ans_of(iout, i), ans_of(mout, i)
        ctx.count_case(("fft64", mt[0], mt[1], "err" if a.startswith("err") else "ok"), True)
        hist[mt[0]] = hist.get(mt[0], 0) + 1
        if a != b:
            nb += 1
            if nb <= 2:
                disagree(f"fft64 {mt[0]}: implementation and model differ", hl[i].split(" ", 1)[1], a, b, True)
    if nb:
        broken.append(f"{nb} mul/addmul disagreements")

    # pipelines
    pipe_cases = []
    totals = [20, 40, 45, 47, 48, 49, 50, 51, 52, 56]
    kpipe = [k for k in Ks if k in tabs]
    for k in kpipe:
        n = 2 << k
        npk = (6 if quick else 10) if k <= 10 else 2
        for _ in range(npk):
            rows = 1 if rng.below(2) else rng.range(1, 6)
            op = "pipe" if rows == 1 and rng.below(2) else "vmp"
            tb = rng.choice(totals)
            ba, bb = magnitude_split(rng, tb, k, rows)
            cls_a = rng.choice(CLASSES)
            cls_b = cls_a if cls_a in ("allmax", "alt", "allmin") and rng.below(2) else rng.choice(CLASSES)
            Av = [coeff_vec(rng, n, ba, cls_a) for _ in range(rows)]
            Bv = [coeff_vec(rng, n, bb, cls_b) for _ in range(rows)]
            pipe_cases.append((op, k, rows, tb, ba, bb, cls_a, cls_b, Av, Bv))
            # the same product on FFT64Avx (operands inside the 2^50-1 assertion), sometimes through the 2-column kernels
            if ba <= 50 and bb <= 50:
                opa = op if rng.below(3) else rng.choice(["vmp2", "vmp2o"])
                Av2 = Av if opa == op else [coeff_vec(rng, n, ba, cls_a) for _ in range(max(rows, 1))]
                Bv2 = Bv if opa == op else [coeff_vec(rng, n, bb, cls_b) for _ in range(max(rows, 1))]
                pipe_cases.append((opa + ":avx", k, len(Av2), tb, ba, bb, cls_a, cls_b, Av2, Bv2))
            elif rng.below(2):
                pipe_cases.append((op + ":avx", k, rows, tb, ba, bb, cls_a, cls_b, Av, Bv))   # out of range: panic on both sides
    hl, dl = [], []
    b2s = {}
    for i, (op, k, rows, tb, ba, bb, ca, cb, Av, Bv) in enumerate(pipe_cases):
        sa = ";".join(csv(v) for v in Av)
        sb = ";".join(csv(v) for v in Bv)
        o, _, be = op.partition(":")
        ext = " be=avx" if be else ""
        if o.startswith("vmp2"):
            B2 = [coeff_vec(rng, 2 << k, bb, rng.choice(CLASSES)) for _ in Av]
            b2s[i] = B2
            ext += " b2=" + ";".join(csv(v) for v in B2) + (" off=1" if o == "vmp2o" else "")
            o = "vmp2"
        hl.append(f"{i} {o} k={k} a={sa} b={sb}{ext}")
        dl.append(f"{i} fft64 {o} k={k} omg={omg(k, 0)} iomg={omg(k, 1)} a={sa} b={sb}{ext}")
    iout, mout = both(hl, dl)
    nb = 0
    exact_hist = {}
    for i, (op, k, rows, tb, ba, bb, ca, cb, Av, Bv) in enumerate(pipe_cases):
        a, b = ans_of(iout, i), ans_of(mout, i)
        n = 2 << k
        ma = max([abs(x) for v in Av for x in v] + [0])
        mb = max([abs(x) for v in Bv for x in v] + [0])
        bound = n * rows * ma * mb
        nontriv = ma > 0 and mb > 0 and not a.startswith("panic")
        ctx.count_case(("fft64", op, k, ca, cb, tb, rows), nontriv)
        hist[op] = hist.get(op, 0) + 1
        if a != b:
            nb += 1
            if nb <= 3:
                disagree(f"fft64 {op}: implementation and model differ", hl[i].split(" ", 1)[1], a, b, True, {"k": k, "rows": rows, "classes": [ca, cb], "total_bits": tb})
            continue
        if a.startswith("panic") or a.startswith("err"):
            exact_hist.setdefault("panic(n<8 | avx range assertion)", [0, 0])[0] += 1
            continue
        if i in b2s:
            # two output limbs (or the second only): oracle on each
            parts = a.split("|")
            exs = []
            for Bx in ([b2s[i]] if len(parts) == 1 else [Bv, b2s[i]]):
                ex = [0] * n
                for u, v in zip(Av, Bx):
                    ex = [x + y for x, y in zip(ex, negacyclic(u, v))]
                exs.append(csv(ex))
            h = exact_hist.setdefault(f"vmp2 <=2^{max(20, (bound - 1).bit_length()) if bound else 0:02d}", [0, 0])
            h[0] += 1
            if parts != exs:
                h[1] += 1
                if bound <= (1 << MUST_BE_EXACT_BITS):
                    ctx.oracle_failures += 1
                    broken.append(f"fft64 vmp2 inexact inside the domain (k={k})")
                    disagree("FFT64 vmp (2 output limbs) differs from the exact product inside the magnitude domain", hl[i].split(" ", 1)[1][:3000], a, "|".join(exs), True, {"k": k, "rows": rows})
            continue
        # oracle: exact negacyclic product
        if k <= (9 if quick else 12):
            ex = [0] * n
            for u, v in zip(Av, Bv):
                ex = [x + y for x, y in zip(ex, negacyclic(u, v))]
            got = list(map(int, a.split(",")))
            bucket = f"<=2^{max(20, (bound - 1).bit_length()) if bound else 0:02d}"
            h = exact_hist.setdefault(bucket, [0, 0])
            h[0] += 1
            if got != ex:
                h[1] += 1
                if bound <= (1 << MUST_BE_EXACT_BITS):
                    ctx.oracle_failures += 1
                    broken.append(f"fft64 {op} inexact inside the domain (k={k}, bound 2^{bound.bit_length()})")
                    disagree(f"FFT64 {op} differs from the exact negacyclic product inside the magnitude domain n·rows·|a|·|b| ≤ 2^{MUST_BE_EXACT_BITS}",
                             hl[i].split(" ", 1)[1], a, csv(ex), True, {"k": k, "rows": rows, "bound_bits": bound.bit_length()})
    if nb:
        broken.append(f"{nb} pipeline disagreements")
    ctx.cov["fft64_pipeline_exactness_by_bound"] = {k: {"cases": v[0], "inexact": v[1]} for k, v in sorted(exact_hist.items())}
    if pipe_cases:
        ctx.samples.append({"request": f"fft64 {pipe_cases[0][0]} k={pipe_cases[0][1]} rows={pipe_cases[0][2]} classes={pipe_cases[0][6]}/{pipe_cases[0][7]} total_bits={pipe_cases[0][3]}"})

    # ---------------------------------------------------------------- 3b. convolution path (both back ends)
    def col(n, size, bits, cls):
        return [coeff_vec(rng, n, bits, cls) for _ in range(size)]

    def sc(c):
        return ";".join(csv(v) for v in c)

    def bivariate(a, b, n):
        """exact limbs of the bivariate product: coefficient kk = Σ_j a[kk-j] ⋆ b[j]"""
        out = {}
        for i, x in enumerate(a):
            for j, y in enumerate(b):
                p = negacyclic(x, y)
                out[i + j] = [u + v for u, v in zip(out.get(i + j, [0] * n), p)]
        return out

    def prep(a, size, mask, n):
        ms = min(size, len(a))
        outp = []
        for j in range(size):
            if j + 1 == ms:
                outp.append([((x & mask) + (1 << 63)) % (1 << 64) - (1 << 63) for x in a[j]])
            elif j < ms:
                outp.append(list(a[j]))
            else:
                outp.append([0] * n)
        return outp

    chl, cdl, cmeta = [], [], []
    for k in [k for k in Ks if k in tabs and 2 <= k <= (7 if quick else 10)]:
        n = 2 << k
        for _ in range(4 if quick else 8):
            asz, bsz = rng.range(1, 4), rng.range(1, 4)
            sl, sr, rs, off = rng.range(1, 5), rng.range(1, 5), rng.range(1, 7), rng.range(0, 6)
            bits = rng.choice([6, 12, 16, 18])
            cls = rng.choice(["random", "random", "allmax", "alt", "sparse"])
            ml = rng.choice([-1, -1, -(1 << rng.range(1, 10)), 0xFFFF])
            mr = rng.choice([-1, -(1 << 3)])
            for be in ("ref", "avx"):
                a, b = col(n, asz, bits, cls), col(n, bsz, bits, cls)
                base = f"be={be} k={k} rs={rs} off={off} sl={sl} sr={sr} ml={ml} mr={mr}"
                i = len(chl)
                chl.append(f"{i} cnv {base} a={sc(a)} b={sc(b)}")
                cdl.append(f"{i} fft64 cnv {base} omg={omg(k, 0)} iomg={omg(k, 1)} a={sc(a)} b={sc(b)}")
                cmeta.append(("cnv", be, k, rs, off, sl, sr, ml, mr, [a], [b], cls, bits))
                a1, b1 = col(n, asz, bits, cls), col(n, bsz, bits, cls)
                i = len(chl)
                chl.append(f"{i} cnvp {base} a0={sc(a)} a1={sc(a1)} b0={sc(b)} b1={sc(b1)}")
                cdl.append(f"{i} fft64 cnvp {base} omg={omg(k, 0)} iomg={omg(k, 1)} a0={sc(a)} a1={sc(a1)} b0={sc(b)} b1={sc(b1)}")
                cmeta.append(("cnvp", be, k, rs, off, sl, sr, ml, mr, [a, a1], [b, b1], cls, bits))
                ab, cb = rng.choice([12, 20, 31, 33, 62]), rng.choice([12, 20, 31, 40, 62])
                ac = col(n, asz, ab, "random")
                c = [rng.range(-(1 << cb), 1 << cb) for _ in range(bsz)]
                i = len(chl)
                chl.append(f"{i} cnvc be={be} k={k} rs={rs} off={off} a={sc(ac)} c={csv(c)}")
                cdl.append(chl[-1].replace(" ", " fft64 ", 1))
                cmeta.append(("cnvc", be, k, rs, off, 0, 0, -1, -1, [ac], [c], "random", max(ab, cb)))
    ciout, cmout = both(chl, cdl)
    nb = 0
    cnv_oracle = {"checked": 0, "inexact": 0, "by_const_beyond_i32": 0}
    for i, mt in enumerate(cmeta):
        a_, b_ = ans_of(ciout, i), ans_of(cmout, i)
        op, be, k, rs, off, sl, sr, ml, mr, A_, B_, cls, bits = mt
        n = 2 << k
        ctx.count_case(("fft64-cnv", op, be, k, cls, bits, rs, off), cls != "zero")
        hist[f"{op}:{be}"] = hist.get(f"{op}:{be}", 0) + 1
        if a_ != b_:
            nb += 1
            if nb <= 3:
                disagree(f"fft64 {op} ({be}): implementation and model differ", chl[i].split(" ", 1)[1][:3000], a_, b_, True, {"k": k})
            continue
        if a_.startswith(("panic", "err")):
            continue
        # oracle: the exact bivariate product (prepared operands, cnv_offset, truncation)
        got = [list(map(int, l.split(","))) for l in a_.split(";")]
        if op == "cnvc":
            a0, cst = A_[0], B_[0]
            bound = len(a0) + len(cst) - 1
            ms, o2 = min(rs, bound), min(off, bound)
            ex = []
            for kk in range(rs):
                acc = [0] * n
                if kk < ms:
                    for j in range(len(cst)):
                        if 0 <= kk + o2 - j < len(a0):
                            acc = [x + cst[j] * y for x, y in zip(acc, a0[kk + o2 - j])]
                ex.append([(x + (1 << 63)) % (1 << 64) - (1 << 63) for x in acc])
            cnv_oracle["checked"] += 1
            if bits > 31:
                cnv_oracle["by_const_beyond_i32"] += 1
            if got != ex:
                # plain violation on both back ends (patch 34 made the FFT64Avx lane product an exact wrapping 64x64 product;
                # the former KNOWN-FINDING handling of operands beyond i32 is gone)
                ctx.oracle_failures += 1
                broken.append(f"cnv_by_const ({be}) differs from the exact product")
                disagree(f"cnv_by_const_apply ({be}) differs from the exact wrapping i64 product", chl[i].split(" ", 1)[1][:3000], a_, ";".join(csv(l) for l in ex), True,
                         {"k": k, "operand_bits": bits})
            continue
        if op == "cnv":
            pa, pb = prep(A_[0], sl, ml, n), prep(B_[0], sr, mr, n)
        else:
            pa0, pa1 = prep(A_[0], sl, ml, n), prep(A_[1], sl, ml, n)
            pb0, pb1 = prep(B_[0], sr, mr, n), prep(B_[1], sr, mr, n)
            pa = [[x + y for x, y in zip(u, v)] for u, v in zip(pa0, pa1)]
            pb = [[x + y for x, y in zip(u, v)] for u, v in zip(pb0, pb1)]
        biv = bivariate(pa, pb, n)
        bound = len(pa) + len(pb) - 1
        ms, o2 = min(rs, bound), min(off, bound)
        ex = [biv.get(kk + o2, [0] * n) if kk < ms else [0] * n for kk in range(rs)]
        cnv_oracle["checked"] += 1
        if got != ex:
            cnv_oracle["inexact"] += 1
            ctx.oracle_failures += 1
            broken.append(f"fft64 {op} ({be}) differs from the exact bivariate product (k={k}, {bits} bits)")
            disagree(f"FFT64 {op} ({be}) differs from the exact bivariate convolution inside the magnitude domain", chl[i].split(" ", 1)[1][:3000], a_[:1000], ";".join(csv(l) for l in ex)[:1000], True)
    if nb:
        broken.append(f"{nb} convolution disagreements")
    ctx.cov["fft64_cnv_oracle"] = cnv_oracle

    # ---------------------------------------------------------------- 4. model-only worst-case search (evidence)
    search = {}
    ks_search = [k for k in ([1, 2, 3, 4, 5, 6, 7] if quick else list(range(1, 11))) if k in tabs]
    fam = ["allmax/allmax", "alt/alt", "allmax/alt", "randsign/randsign", "allmax/impulse", "randsign/allmax"]
    reqs, rmeta = [], []
    for k in ks_search:
        n = 2 << k
        for tb in range(44, 56):
            for f in fam:
                for split in ("balanced", "a-wide"):
                    budget = tb - (k + 1)
                    ba = budget // 2 if split == "balanced" else budget - 1
                    bb = budget - ba
                    ca, cb = f.split("/")
                    a = coeff_vec(rng, n, ba, ca)
                    b = coeff_vec(rng, n, bb, cb)
                    if cb == "impulse":
                        b = [0] * n
                        b[n - 1] = (1 << bb) - 1
                    reqs.append(f"{len(reqs)} fft64 pipe k={k} omg={omg(k, 0)} iomg={omg(k, 1)} a={csv(a)} b={csv(b)}")
                    rmeta.append((k, tb, f, split, a, b))
    if reqs:
        _, sout, _ = ctx.run_lines(drv, [], reqs)
        firstbad = {}
        for i, (k, tb, f, split, a, b) in enumerate(rmeta):
            got = ans_of(sout, i)
            ok = got == csv(negacyclic(a, b))
            ctx.evaluations += 1
            if not ok:
                cur = firstbad.get(k)
                if cur is None or tb < cur[0]:
                    firstbad[k] = (tb, f, split)
        for k in ks_search:
            fb = firstbad.get(k)
            search[f"n={2 << k}"] = {"largest_total_bits_with_every_family_exact": (fb[0] - 1) if fb else 55,
                                     "first_failure": {"total_bits": fb[0], "family": fb[1], "split": fb[2]} if fb else None}
    ctx.cov["fft64_worst_case_search_model_only"] = {"note": "total_bits = log2(n·|a|max·|b|max) rounded up; families " + ", ".join(fam) + "; evidence only (exact binary64 model with the dumped tables)",
                                                     "per_n": search}
    ctx.cov["fft64_histogram"] = hist
    ctx.cov["fft64_seconds"] = round(time.time() - t0, 1)
    return broken
