"""C02 — noise-free ciphertext operations commute exactly with decryption.

Proof gate : Props/C02.lean (phase homomorphism theorems over Model/Core/Ops.lean).
Tie        : random straight-line programs of GLWE / GGSW operations over pools of ciphertexts with
             explicit limbs (no key), run by `pvh ops` on all four back ends and by the Lean model
             (`pdriver ops`); every intermediate ciphertext is compared bit for bit.
Oracle     : the property itself in Python big integers, evaluated on the implementation's outputs
             under a random clear secret: phase(result) = operation(phases of the operands), exactly
             on the limbs the operation keeps and within the stated units otherwise; plus the
             key-free column form for shifts / normalisation, and the admissibility predicate of
             the API (which shape combinations must be accepted, which must panic).
"""
import json
import os

from . import common

BACKENDS = ["fft64ref", "ntt120ref", "fft64avx", "ntt120avx"]

UNARY_INPLACE = ("negate_assign", "normalize_assign")
BIN = ("add_assign", "sub_assign", "sub_negate_assign", "negate", "copy", "normalize")

# ------------------------------------------------------------------------------------------------
# generator
# ------------------------------------------------------------------------------------------------


def gen_values(rng, count, b, cls):
    half = 1 << (b - 1)
    out = []
    for _ in range(count):
        if cls == "zero":
            v = 0
        elif cls == "digits":
            v = rng.below(2 * half) - half
        elif cls == "extreme":
            v = rng.choice([-half, half - 1, -half, half - 1, 0, 1, -1])
        elif cls == "wide":                       # not normalised: a few extra bits
            w = min(b + 3, 60)
            v = rng.below(1 << (w + 1)) - (1 << w)
        else:                                     # "sparse"
            v = (rng.below(2 * half) - half) if rng.chance(1, 6) else 0
        out.append(v)
    return out


def rot_amount(rng, n):
    c = rng.below(8)
    if c == 0:
        return 0
    if c == 1:
        return rng.range(1, n - 1)
    if c == 2:
        return -rng.range(1, 2 * n)
    if c == 3:
        return rng.range(2 * n, 6 * n)
    if c == 4:
        return rng.choice([n, -n, 2 * n, -2 * n, n - 1, n + 1, 2 * n - 1, 2 * n + 1])
    if c == 5:
        return rng.range(-(1 << 40), 1 << 40)
    if c == 6:
        return rng.choice([(1 << 63) - 1, -(1 << 63), -(1 << 63) + 1, (1 << 62) + 3])
    return rng.range(-3 * n, 3 * n)


def gen_program(rng, force=None):
    """-> dict(line, be-less request, meta, decls, ops).  `force` selects a family:
    None (mixed) | 'linear' | 'rotate' | 'shift' | 'norm' | 'ggsw' | 'rshdefect' | 'radixmix' | 'invalid'"""
    fam = force or rng.choice(["mixed", "mixed", "mixed", "linear", "rotate", "shift", "norm", "ggsw", "rshdefect", "radixmix", "invalid"])
    n = rng.choice([8, 16])
    big = rng.chance(1, 6)
    b = rng.range(21, 50) if big else rng.range(2, 20)
    b2 = rng.range(2, 50) if fam in ("norm", "mixed", "radixmix") else b
    if b2 == b:
        b2 = b + 1
    scr = 0 if rng.chance(3, 4) else rng.range(-(1 << 20), 1 << 20)
    # scratch arena: ample, or around the three thresholds 8N (rotate), 16N (shift), 24N (normalize)
    sb = 1 << 16
    if fam == "scratch" or rng.chance(1, 12):
        sb = rng.choice([0, 1, 8 * n - 1, 8 * n, 8 * n + 1, 16 * n - 64, 16 * n - 63, 16 * n, 24 * n - 64, 24 * n - 1, 24 * n,
                         rng.range(0, 24 * n + 64)])
    R = rng.choice([0, 1, 1, 2, 2, 3])
    cls = rng.choice(["digits", "digits", "digits", "extreme", "wide", "sparse", "zero"])
    if big and cls == "wide":
        cls = "digits"
    decls = []
    npool = rng.range(3, 6)
    for i in range(npool):
        rank = R
        c = rng.below(10) if i >= 3 else 9         # the first three entries share rank and radix
        if c < 2:
            rank = 0                                   # plaintext operand
        elif c == 2:
            rank = rng.range(0, 3)                     # any rank (smaller-rank operands of lsh/add_assign, or inadmissible)
        size = rng.range(1, 5)
        bb = b
        if fam in ("norm", "radixmix") and rng.chance(1, 2) and i >= 1:
            bb = b2
        elif fam == "mixed" and rng.chance(1, 6) and i >= 3:
            bb = b2
        vcls = cls if rng.chance(4, 5) else rng.choice(["digits", "zero", "extreme"])
        decls.append({"kind": "ct", "rank": rank, "size": size, "b": bb,
                      "vals": gen_values(rng, (rank + 1) * size * n, bb, vcls), "cls": vcls})
    if fam in ("ggsw", "scratch"):
        for i in range(rng.range(2, 3)):
            rank = rng.choice([R, R, rng.range(0, 2)])
            size = rng.range(2, 4)
            dnum = rng.range(1, size)
            decls.append({"kind": "ggsw", "rank": rank, "size": size, "b": b, "dnum": dnum, "dsize": 1,
                          "vals": gen_values(rng, dnum * (rank + 1) * (rank + 1) * size * n, b, cls), "cls": cls})

    cts = [i for i, d in enumerate(decls) if d["kind"] == "ct"]
    ggs = [i for i, d in enumerate(decls) if d["kind"] == "ggsw"]

    def pick_res():
        return rng.choice(cts)

    def pick_operand(r, rule, same_b=True, strict=True):
        """an operand index compatible with result r under `rule`; falls back to anything (≠ r)"""
        dr = decls[r]
        cands = []
        for i in cts:
            if i == r:
                continue
            d = decls[i]
            if same_b and d["b"] != dr["b"]:
                continue
            if rule == "eq0" and not (d["rank"] == dr["rank"] or d["rank"] == 0):
                continue
            if rule == "eq" and d["rank"] != dr["rank"]:
                continue
            if rule == "le" and d["rank"] > dr["rank"]:
                continue
            cands.append(i)
        if cands and (strict or rng.chance(2, 3)):
            return rng.choice(cands)
        if strict:
            return None                                # no admissible operand: the caller drops the op
        others = [i for i in cts if i != r]
        return rng.choice(others) if others else r

    groups = {
        "linear": ["add", "add_assign", "sub", "sub_assign", "sub_negate_assign", "negate", "negate_assign", "copy"],
        "rotate": ["rotate", "rotate_assign", "mul_xp_minus_one", "mul_xp_minus_one_assign", "copy", "add"],
        "shift": ["lsh", "lsh_add", "lsh_sub", "lsh_assign", "rsh", "normalize_assign"],
        "norm": ["normalize", "normalize_assign", "normalize", "add_assign"],
        "rshdefect": ["rsh", "rsh", "add_assign", "rsh"],
        "radixmix": ["negate", "copy", "rotate", "mul_xp_minus_one", "normalize"],
        "scratch": ["rotate_assign", "mul_xp_minus_one_assign", "rsh", "lsh_assign", "lsh", "lsh_add", "lsh_sub", "normalize",
                    "normalize_assign", "add", "negate_assign", "rotate"],
    }
    allops = sorted(set(sum(groups.values(), [])))
    ops = []
    strict = fam != "invalid"
    nops = rng.range(1, 8)
    for _ in range(nops):
        if fam in ("ggsw", "scratch") and ggs and rng.chance(2, 3 if fam == "ggsw" else 6):
            k = rot_amount(rng, n)
            if rng.chance(1, 2) and len(ggs) >= 2:
                r = rng.choice(ggs)
                a = rng.choice([g for g in ggs if g != r])
                ops.append(("ggsw_rotate", k, r, a))
            else:
                ops.append(("ggsw_rotate_assign", k, rng.choice(ggs)))
            continue
        name = rng.choice(groups.get(fam, allops))
        r = pick_res()
        dr = decls[r]
        if name in ("add", "sub"):
            a = pick_operand(r, "eq0", strict=strict)
            bb = pick_operand(r, "eq0", strict=strict)
            # the rank rule needs one operand of full rank unless both are plaintexts
            if a is not None and bb is not None and decls[a]["rank"] == 0 and decls[bb]["rank"] == 0 and dr["rank"] != 0:
                bb = pick_operand(r, "eq", strict=strict)
            if rng.chance(1, 2):
                a, bb = bb, a
            ops.append((name, r, a, bb))
        elif name == "add_assign":
            ops.append((name, r, pick_operand(r, "le", strict=strict)))
        elif name in ("sub_assign", "sub_negate_assign"):
            ops.append((name, r, pick_operand(r, "eq0", strict=strict)))
        elif name == "negate":
            ops.append((name, r, pick_operand(r, "eq", same_b=(fam != "radixmix"), strict=strict)))
        elif name == "copy":
            ops.append((name, r, pick_operand(r, "eq0", same_b=(fam != "radixmix"), strict=strict)))
        elif name in ("negate_assign", "normalize_assign"):
            ops.append((name, r))
        elif name == "rotate":
            ops.append((name, rot_amount(rng, n), r, pick_operand(r, "eq0", same_b=(fam != "radixmix"), strict=strict)))
        elif name == "mul_xp_minus_one":
            ops.append((name, rot_amount(rng, n), r, pick_operand(r, "eq", same_b=(fam != "radixmix"), strict=strict)))
        elif name in ("rotate_assign", "mul_xp_minus_one_assign"):
            ops.append((name, rot_amount(rng, n), r))
        elif name == "rsh":
            if fam == "rshdefect":
                k = rng.choice([0, 0, dr["b"] + 1, 2 * dr["b"], rng.range(0, dr["size"] * dr["b"]), rng.range(0, (dr["size"] + 2) * dr["b"])])
            else:
                k = rng.range(0, (dr["size"] + 2) * dr["b"])
            ops.append((name, k, r))
        elif name == "lsh_assign":
            ops.append((name, r, rng.range(0, (dr["size"] + 2) * dr["b"])))
        elif name in ("lsh", "lsh_add", "lsh_sub"):
            ops.append((name, r, pick_operand(r, "le", strict=strict), rng.range(0, (dr["size"] + 2) * dr["b"])))
        elif name == "normalize":
            ops.append((name, r, pick_operand(r, "eq", same_b=False, strict=strict)))
    ops = [op for op in ops if None not in op]
    if not ops:
        ops = [("negate_assign", cts[0])]
    req = request_line(n, scr, decls, ops, sb)
    meta = {"family": fam, "n": n, "b": b, "big": big, "scr0": scr == 0, "cls": cls, "R": R, "nops": len(ops), "sb": sb}
    return {"req": req, "meta": meta, "n": n, "scr": scr, "sb": sb, "decls": decls, "ops": ops}


def request_line(n, scr, decls, ops, sb=1 << 16):
    parts = [f"n={n} scr={scr} sb={sb}"]
    for d in decls:
        v = ",".join(str(x) for x in d["vals"]) if any(d["vals"]) else "z"
        if d["kind"] == "ct":
            parts.append(f"ct {d['rank']} {d['size']} {d['b']} {v}")
        else:
            parts.append(f"ggsw {d['rank']} {d['size']} {d['b']} {d['dnum']} {d['dsize']} {v}")
    for op in ops:
        parts.append(" ".join(str(x) for x in op))
    return " ; ".join(parts)


# ------------------------------------------------------------------------------------------------
# exact arithmetic helpers (the independent oracle)
# ------------------------------------------------------------------------------------------------


def chunks(v, k):
    return [v[i:i + k] for i in range(0, len(v), k)]


def mk_ct(n, rank, size, b, vals):
    vals = list(vals) + [0] * ((rank + 1) * size * n - len(vals))
    cols = [chunks(c, n) for c in chunks(vals[:(rank + 1) * size * n], size * n)]
    return {"kind": "ct", "rank": rank, "size": size, "b": b, "cols": cols}


def mk_obj(n, d):
    if d["kind"] == "ct":
        return mk_ct(n, d["rank"], d["size"], d["b"], d["vals"])
    per = (d["rank"] + 1) * d["size"] * n
    tot = d["dnum"] * (d["rank"] + 1)
    vals = list(d["vals"]) + [0] * (tot * per - len(d["vals"]))
    return {"kind": "ggsw", "rank": d["rank"], "size": d["size"], "b": d["b"], "dnum": d["dnum"], "dsize": d["dsize"],
            "cts": [mk_ct(n, d["rank"], d["size"], d["b"], c) for c in chunks(vals[:tot * per], per)]}


def parse_step(n, tok):
    """`r=RxS@B[#D]:v,…` -> (r, object)"""
    head, v = tok.split(":", 1)
    r, shape = head.split("=")
    dn = None
    if "#" in shape:
        shape, dn = shape.split("#")
    rk, rest = shape.split("x")
    sz, b = rest.split("@")
    rk, sz, b = int(rk), int(sz), int(b)
    vals = [] if v == "-" else [int(x) for x in v.split(",")]
    if dn is None:
        return int(r), mk_ct(n, rk, sz, b, vals)
    return int(r), mk_obj(n, {"kind": "ggsw", "rank": rk, "size": sz, "b": b, "dnum": int(dn), "dsize": 1, "vals": vals})


def negacyclic(s, v):
    n = len(v)
    out = [0] * n
    for i, si in enumerate(s):
        if si == 0:
            continue
        for j, vj in enumerate(v):
            k = i + j
            if k < n:
                out[k] += si * vj
            else:
                out[k - n] -= si * vj
    return out


def rot(k, v):
    """X^k * v in Z[X]/(X^n+1), any integer k"""
    n = len(v)
    k %= 2 * n
    out = [0] * n
    for j, x in enumerate(v):
        t = j + k
        sgn = 1
        while t >= n:
            t -= n
            sgn = -sgn
        out[t] = sgn * x
    return out


def col_val(col, b, upto=None):
    """integer value polynomial of a limb column at `upto` limbs (truncate / zero-extend), last limb weight 1"""
    size = len(col)
    m = size if upto is None else upto
    n = len(col[0]) if col else 0
    out = [0] * n
    for j in range(min(m, size)):
        sh = b * (m - 1 - j)
        for t in range(n):
            out[t] += col[j][t] << sh
    return out


def phase(ct, s, upto=None):
    """integer phase polynomial body + sum s_i * mask_i of the (fitted) ciphertext, scale 2^-(b*upto)"""
    cols = ct["cols"]
    acc = col_val(cols[0], ct["b"], upto)
    for i in range(1, ct["rank"] + 1):
        p = negacyclic(s[i - 1], col_val(cols[i], ct["b"], upto))
        acc = [x + y for x, y in zip(acc, p)]
    return acc


def cdiff(x, y, mbits):
    """centred difference x - y modulo 2^mbits"""
    m = 1 << mbits
    d = (x - y) % m
    return d - m if d > m // 2 else d


def max_abs(ct):
    return max((abs(x) for c in ct["cols"] for l in c for x in l), default=0)


def balanced(ct):
    h = 1 << (ct["b"] - 1)
    return all(-h <= x <= h for c in ct["cols"] for l in c for x in l)


def l1(s, rank):
    return sum(sum(abs(x) for x in s[i]) for i in range(rank))


# ------------------------------------------------------------------------------------------------
# admissibility (from the documented assertions of the API, independent of the model)
# ------------------------------------------------------------------------------------------------


def rank_rule3(r, a, b):
    if a["rank"] == 0:
        return r["rank"] == b["rank"]
    if b["rank"] == 0:
        return r["rank"] == a["rank"]
    return r["rank"] == a["rank"] == b["rank"]


def admissible(name, r, a=None, b=None):
    if name in ("add", "sub"):
        return a["b"] == b["b"] == r["b"] and rank_rule3(r, a, b)
    if name == "add_assign" or name in ("lsh", "lsh_add", "lsh_sub"):
        return r["b"] == a["b"] and r["rank"] >= a["rank"]
    if name in ("sub_assign", "sub_negate_assign"):
        return r["b"] == a["b"] and (r["rank"] == a["rank"] or a["rank"] == 0)
    if name == "normalize":
        return r["rank"] == a["rank"]
    if name in ("negate", "mul_xp_minus_one"):
        return r["b"] == a["b"] and r["rank"] == a["rank"]
    if name in ("copy", "rotate"):
        return r["b"] == a["b"] and (r["rank"] == a["rank"] or a["rank"] == 0)
    if name == "ggsw_rotate":
        # glwe_rotate on every entry carries the radix assertion
        return r["dnum"] <= a["dnum"] and r["dsize"] == a["dsize"] and r["rank"] == a["rank"] and (r["b"] == a["b"] or r["dnum"] == 0)
    return True


# ------------------------------------------------------------------------------------------------
# the property, step by step
# ------------------------------------------------------------------------------------------------

HEADROOM = 1 << 61


def fit_phase(a, s, rs):
    return phase(a, s, rs)


def check_linear_like(name, k, old, a, b, new, s, n):
    """exact form: phase(new) == op(phases of the operands fitted to new's limb count), as torus
    elements of precision b*rs.  Returns None or a failure description."""
    rs, bb = new["size"], new["b"]
    mbits = bb * rs
    pn = phase(new, s)
    if name == "add":
        exp = [x + y for x, y in zip(fit_phase(a, s, rs), fit_phase(b, s, rs))]
    elif name == "sub":
        exp = [x - y for x, y in zip(fit_phase(a, s, rs), fit_phase(b, s, rs))]
    elif name == "add_assign":
        exp = [x + y for x, y in zip(phase(old, s), fit_phase(a, s, rs))]
    elif name == "sub_assign":
        exp = [x - y for x, y in zip(phase(old, s), fit_phase(a, s, rs))]
    elif name == "sub_negate_assign":
        exp = [y - x for x, y in zip(phase(old, s), fit_phase(a, s, rs))]
    elif name == "negate":
        exp = [-x for x in fit_phase(a, s, rs)]
    elif name == "negate_assign":
        exp = [-x for x in phase(old, s)]
    elif name == "copy":
        exp = fit_phase(a, s, rs)
    elif name == "rotate":
        exp = rot(k, fit_phase(a, s, rs))
    elif name == "rotate_assign":
        exp = rot(k, phase(old, s))
    elif name == "mul_xp_minus_one":
        p = fit_phase(a, s, rs)
        exp = [x - y for x, y in zip(rot(k, p), p)]
    elif name == "mul_xp_minus_one_assign":
        p = phase(old, s)
        exp = [x - y for x, y in zip(rot(k, p), p)]
    else:
        return None
    for t in range(n):
        if cdiff(pn[t], exp[t], mbits) != 0:
            return f"phase of the result differs from {name} applied to the phases of the (fitted) operands at coefficient {t}: got {pn[t] % (1 << mbits)}, expected {exp[t] % (1 << mbits)} (mod 2^{mbits})"
    return None


def check_loose(name, k, operands, new, s, n):
    """torus form against the *untruncated* operands (each in its own radix and precision): within
    one unit of new's last limb per truncated column, weighted by the secret.  `operands` =
    [(sign, ct, rotate?)] whose combination is the expected phase."""
    bits = [new["b"] * new["size"]] + [o[1]["b"] * o[1]["size"] for o in operands]
    L = max(bits)
    pn = [x << (L - bits[0]) for x in phase(new, s)]
    exp = [0] * n
    tol = 0
    for (sgn, ct, xform), bt in zip(operands, bits[1:]):
        p = [x << (L - bt) for x in phase(ct, s)]
        p = xform(p)
        exp = [e + sgn * x for e, x in zip(exp, p)]
        if bt > bits[0]:
            mult = 2 if name.startswith("mul_xp") else 1
            tol += mult * (1 + l1(s, ct["rank"])) << (L - bits[0])
    for t in range(n):
        if abs(cdiff(pn[t], exp[t], L)) > tol:
            return f"phase of the result is not within {tol >> (L - bits[0])} unit(s) of its last limb of {name} applied to the operand phases (coefficient {t})"
    return None


def col_close(y, ybits, x, xbits, tol_units):
    """|y/2^ybits - x/2^xbits| mod 1 ≤ tol_units * 2^-ybits, coefficient-wise; returns failing index or None"""
    L = max(ybits, xbits)
    for t in range(len(y)):
        d = cdiff(y[t] << (L - ybits), x[t] << (L - xbits), L)
        if abs(d) > (tol_units << (L - ybits)):
            return t
    return None


def check_shift_norm(name, k, old, a, new, s, n):
    """key-free column form, then the phase form that follows from it"""
    rb, rs = new["b"], new["size"]
    ybits = rb * rs
    zero = [0] * n
    for i in range(new["rank"] + 1):
        y = col_val(new["cols"][i], rb)
        if name == "normalize":
            x = col_val(a["cols"][i], a["b"])
            xbits = a["b"] * a["size"]
            bad = col_close(y, ybits, x, xbits, 0 if ybits >= xbits else 1)
        elif name == "normalize_assign":
            bad = col_close(y, ybits, col_val(old["cols"][i], rb), ybits, 0)
        elif name == "lsh_assign":
            x = [v << k for v in col_val(old["cols"][i], rb)]
            bad = col_close(y, ybits, x, ybits, 0)
        elif name in ("lsh", "lsh_add", "lsh_sub"):
            base = zero if name == "lsh" else col_val(old["cols"][i], rb)
            if i <= a["rank"]:
                xbits = a["b"] * a["size"]
                L = max(ybits, xbits)
                sh = [v << (k + L - xbits) for v in col_val(a["cols"][i], a["b"])]
                sgn = -1 if name == "lsh_sub" else 1
                x = [(bv << (L - ybits)) + sgn * v for bv, v in zip(base, sh)]
                bad = col_close(y, ybits, x, L, 0 if xbits - k <= ybits else 1)
            else:
                bad = col_close(y, ybits, base, ybits, 0)
        elif name == "rsh":
            v = col_val(old["cols"][i], rb)
            bad = None
            for t in range(n):
                d = cdiff(y[t] << k, v[t], ybits + k)
                if abs(d) > (1 << k):
                    bad = t
                    break
        else:
            return None
        if bad is not None:
            return f"column {i} of the result of {name} (k={k}) is not the shifted / re-normalised operand column within one unit of the last limb (coefficient {bad})"
    return None


def check_step(op, pool, new, s, n):
    """-> (verdict, detail, key).  verdict ∈ ok | skip | fail"""
    name = op[0]
    k = None
    if name in ("add", "sub"):
        r, a, b = pool[op[1]], pool[op[2]], pool[op[3]]
        old = r
    elif name in BIN:
        r, a, b = pool[op[1]], pool[op[2]], None
        old = r
    elif name in UNARY_INPLACE:
        r, a, b = pool[op[1]], None, None
        old = r
    elif name in ("rotate", "mul_xp_minus_one"):
        k = op[1]
        r, a, b = pool[op[2]], pool[op[3]], None
        old = r
    elif name in ("rotate_assign", "mul_xp_minus_one_assign"):
        k = op[1]
        r, a, b = pool[op[2]], None, None
        old = r
    elif name == "rsh":
        k = op[1]
        r, a, b = pool[op[2]], None, None
        old = r
    elif name == "lsh_assign":
        k = op[2]
        r, a, b = pool[op[1]], None, None
        old = r
    elif name in ("lsh", "lsh_add", "lsh_sub"):
        k = op[3]
        r, a, b = pool[op[1]], pool[op[2]], None
        old = r
    else:
        return ("skip", "unknown op", None)
    for x in (old, a, b):
        if x is not None and max_abs(x) >= HEADROOM:
            return ("skip", "outside the head-room of the property (|limb| ≥ 2^61)", None)
    if new["rank"] != old["rank"] or new["size"] != old["size"] or new["b"] != old["b"]:
        return ("fail", "the shape of the result object changed", f"glwe_{name}:shape")

    if name in ("lsh", "lsh_add", "lsh_sub", "lsh_assign", "rsh", "normalize", "normalize_assign"):
        d = check_shift_norm(name, k, old, a, new, s, n)
        if d is not None:
            key = f"glwe_{name}"
            if name == "rsh":
                steps = -(-k // old["b"])
                key = "glwe_rsh:k=0:uninitialised-carry" if k == 0 else ("glwe_rsh:steps>=2" if steps >= 2 else "glwe_rsh:steps=1")
            return ("fail", d, key)
        # the phase form (follows from the column form by linearity of the phase)
        tolu = 1 + l1(s, new["rank"])
        if name == "normalize":
            d = check_loose("normalize", k, [(1, a, lambda p: p)], new, s, n) if a["b"] * a["size"] > new["b"] * new["size"] else \
                (None if col_close(phase(new, s), new["b"] * new["size"], phase(a, s), a["b"] * a["size"], 0) is None else "phase changed by an exact re-normalisation")
            if d:
                return ("fail", d, "glwe_normalize:phase")
        elif name in ("normalize_assign", "lsh_assign"):
            x = [v << (k or 0) for v in phase(old, s)]
            if col_close(phase(new, s), new["b"] * new["size"], x, new["b"] * new["size"], 0) is not None:
                return ("fail", f"phase of {name} is not the phase times 2^k", f"glwe_{name}:phase")
        elif name == "rsh":
            pn, po = phase(new, s), phase(old, s)
            for t in range(n):
                if abs(cdiff(pn[t] << k, po[t], new["b"] * new["size"] + k)) > (tolu << k):
                    return ("fail", "phase of rsh is not the phase divided by 2^k within the stated units", "glwe_rsh:phase")
        else:
            ybits, xbits = new["b"] * new["size"], a["b"] * a["size"]
            L = max(ybits, xbits)
            base = [0] * n if name == "lsh" else phase(old, s)
            sgn = -1 if name == "lsh_sub" else 1
            x = [(bv << (L - ybits)) + sgn * (v << (k + L - xbits)) for bv, v in zip(base, phase(a, s))]
            tol = 0 if xbits - k <= ybits else (1 + l1(s, a["rank"]))
            if col_close(phase(new, s), ybits, x, L, tol) is not None:
                return ("fail", f"phase of {name} is not base ± phase(a)·2^k within the stated units", f"glwe_{name}:phase")
        return ("ok", "", None)

    # linear / rotation family
    radix_mix = a is not None and a["b"] != new["b"]
    if radix_mix:
        # only negate / copy / rotate / mul_xp_minus_one reach this point (no radix assertion in the API)
        xf = {"negate": (-1, lambda p: p), "copy": (1, lambda p: p), "rotate": (1, lambda p: rot(k, p)),
              "mul_xp_minus_one": (1, lambda p: [x - y for x, y in zip(rot(k, p), p)])}[name]
        # phases of a in its own radix vs phase of the result in its radix
        bits_a, bits_r = a["b"] * a["size"], new["b"] * new["size"]
        L = max(bits_a, bits_r)
        pa = xf[1]([x << (L - bits_a) for x in phase(a, s)])
        pn = [x << (L - bits_r) for x in phase(new, s)]
        tol = (2 * (1 + l1(s, a["rank"]))) << (L - bits_r) if bits_a > bits_r else 0
        for t in range(n):
            if abs(cdiff(pn[t], xf[0] * pa[t], L)) > tol:
                return ("fail", f"glwe_{name} accepted operands of different radices (2^{a['b']} into 2^{new['b']}) and copied the limbs verbatim: "
                                f"the phase of the result is not the {name} of the operand's phase", f"glwe_{name}:base2k-unchecked")
        return ("ok", "radix mix harmless on these values", None)
    d = check_linear_like(name, k, old, a, b, new, s, n)
    if d is not None:
        return ("fail", d, f"glwe_{name}:exact")
    # loose form for truncated, normalised operands
    ident = (lambda p: p)
    rk = (lambda p: rot(k, p))
    mx = (lambda p: [x - y for x, y in zip(rot(k, p), p)])
    spec = {
        "add": [(1, a, ident), (1, b, ident)], "sub": [(1, a, ident), (-1, b, ident)],
        "add_assign": [(1, old, ident), (1, a, ident)], "sub_assign": [(1, old, ident), (-1, a, ident)],
        "sub_negate_assign": [(-1, old, ident), (1, a, ident)], "negate": [(-1, a, ident)], "copy": [(1, a, ident)],
        "rotate": [(1, a, rk)], "mul_xp_minus_one": [(1, a, mx)],
    }.get(name)
    if spec and all(balanced(o[1]) for o in spec):
        d = check_loose(name, k, spec, new, s, n)
        if d is not None:
            return ("fail", d, f"glwe_{name}:units")
    return ("ok", "", None)


def check_ggsw_step(op, pool, new, s, n):
    name, k = op[0], op[1]
    old = pool[op[2]]
    a = pool[op[3]] if name == "ggsw_rotate" else old
    rows = old["dnum"]
    for idx in range(rows * (old["rank"] + 1)):
        e_new, e_a = new["cts"][idx], a["cts"][idx]
        rs = e_new["size"]
        exp = rot(k, phase(e_a, s, rs))
        pn = phase(e_new, s)
        for t in range(n):
            if cdiff(pn[t], exp[t], e_new["b"] * rs) != 0:
                return ("fail", f"{name}: entry {idx} is not X^k times the operand entry", f"{name}:exact")
    # rows beyond res.dnum do not exist in res; entries of a beyond are ignored
    return ("ok", "", None)


SCRATCH_NEED = {"rotate_assign": 8, "mul_xp_minus_one_assign": 8, "ggsw_rotate_assign": 8, "rsh": 16, "lsh_assign": 16,
                "lsh": 16, "lsh_add": 16, "lsh_sub": 16, "normalize": 24, "normalize_assign": 24}


def expected_outcome(op, pool, n=0, sb=1 << 16):
    """'ok' | 'panic:assert' | 'panic:scratch' | 'err' from the shapes and the arena size alone: the arena holds
    sb rounded up to a multiple of 64 bytes; rotate needs 8N, the shifts 16N, normalisation 24N; the shifts
    and the in-place forms assert it first, glwe_normalize after its shape assertions"""
    name = op[0]
    cap = (sb + 63) // 64 * 64
    short = name in SCRATCH_NEED and cap < SCRATCH_NEED[name] * n
    try:
        if name in ("add", "sub"):
            idx = op[1:4]
        elif name in BIN or name in ("lsh", "lsh_add", "lsh_sub"):
            idx = op[1:3]
        elif name in UNARY_INPLACE or name == "lsh_assign":
            idx = op[1:2]
        elif name in ("rotate", "mul_xp_minus_one", "ggsw_rotate"):
            idx = op[2:4]
        else:
            idx = op[2:3]
        objs = [pool[i] for i in idx]
    except IndexError:
        return "err"
    want = "ggsw" if name.startswith("ggsw") else "ct"
    if len(set(idx[:1]) & set(idx[1:])) > 0:
        return "err"
    if any(o["kind"] != want for o in objs):
        return "err"
    if short and name != "normalize":
        return "panic:scratch"
    if not admissible(name, *objs):
        return "panic:assert"
    return "panic:scratch" if short else "ok"


def oracle_program(prog, answer, s):
    """walks the implementation's answer; returns list of (step, verdict, detail, key)"""
    n = prog["n"]
    pool = [mk_obj(n, d) for d in prog["decls"]]
    toks = answer.split()
    res = []
    for i, op in enumerate(prog["ops"]):
        tok = toks[i] if i < len(toks) else "missing"
        want = expected_outcome(op, pool, n, prog.get("sb", 1 << 16))
        if tok.startswith("panic") or tok.startswith("err") or tok == "missing":
            name = op[0]
            if want == "ok":
                key = f"glwe_{name}:panic"
                if name == "rsh":
                    dr = pool[op[2]]
                    if -(-op[1] // dr["b"]) > dr["size"]:
                        key = "glwe_rsh:steps>size-panic"
                res.append((i, "fail", f"{name} on an admissible shape combination answered {tok}", key))
            elif want != tok and not (want == "err" and tok.startswith("err")):
                res.append((i, "fail", f"{op[0]}: expected {want}, got {tok}", f"glwe_{op[0]}:outcome"))
            else:
                res.append((i, "ok", tok, None))
            break
        if want != "ok":
            res.append((i, "fail", f"{op[0]} accepted a shape combination its assertions exclude", f"glwe_{op[0]}:accepted-inadmissible"))
            break
        r, new = parse_step(n, tok)
        if op[0].startswith("ggsw"):
            v = check_ggsw_step(op, pool, new, s, n)
        else:
            v = check_step(op, pool, new, s, n)
        res.append((i,) + v)
        pool[r] = new
    return res


def gen_secret(rng, n):
    cls = rng.below(4)
    s = []
    for _ in range(3):
        if cls == 0:
            s.append([rng.range(-1, 1) for _ in range(n)])
        elif cls == 1:
            s.append([rng.range(0, 1) for _ in range(n)])
        elif cls == 2:
            s.append([rng.range(-1, 1) if rng.chance(1, 3) else 0 for _ in range(n)])
        else:
            s.append([rng.range(-5, 5) for _ in range(n)])
    return s


# ------------------------------------------------------------------------------------------------
# orchestration
# ------------------------------------------------------------------------------------------------


def ans_of(lines, k):
    if k < len(lines) and " " in lines[k]:
        return lines[k].split(" ", 1)[1]
    return "missing"


def shape_class(prog, op):
    """distinct-case key of one step: op + relative sizes / ranks / radices"""
    d = prog["decls"]
    name = op[0]
    idx = [x for x in op[1:] if isinstance(x, int)]
    if name in ("rotate", "mul_xp_minus_one", "rotate_assign", "mul_xp_minus_one_assign", "ggsw_rotate", "ggsw_rotate_assign", "rsh"):
        idx = list(op[2:])
    elif name in ("lsh", "lsh_add", "lsh_sub"):
        idx = list(op[1:3])
    elif name == "lsh_assign":
        idx = [op[1]]
    try:
        objs = [d[i] for i in idx]
    except (IndexError, TypeError):
        return (name, "bad-index")
    r = objs[0]
    rel = []
    for o in objs[1:]:
        rel.append(("s<" if o["size"] < r["size"] else "s=" if o["size"] == r["size"] else "s>") +
                   ("r0" if o["rank"] == 0 and r["rank"] != 0 else "r=" if o["rank"] == r["rank"] else "r<" if o["rank"] < r["rank"] else "r>") +
                   ("b=" if o["b"] == r["b"] else "b!"))
    extra = ""
    if name in ("rotate", "mul_xp_minus_one", "rotate_assign", "mul_xp_minus_one_assign", "ggsw_rotate", "ggsw_rotate_assign"):
        k, n = op[1], prog["n"]
        extra = "k0" if k == 0 else "k<0" if k < 0 else "k>=2N" if k >= 2 * n else "k>=N" if k >= n else "k<N"
    if name in ("rsh", "lsh", "lsh_add", "lsh_sub", "lsh_assign"):
        k = op[1] if name == "rsh" else op[-1]
        b = r["b"]
        extra = "k0" if k == 0 else ("k%b=0" if k % b == 0 else "k%b") + ("/steps>size" if -(-k // b) > r["size"] else "/steps>=2" if -(-k // b) >= 2 else "/steps1")
    return (name, r["rank"], min(r["size"], 3), tuple(rel), extra)


def run(ctx):
    rng = ctx.rng
    quick = ctx.tier == "quick"
    ctx.trusted += [
        "Model/Ring.lean (C09) and Model/VecNorm.lean (C08) as the per-column kernels (tied to the code by their own slices and, through every program here, by this one)",
        "harness/src/cmd_ops.rs, lean/Poulpy/Driver/Ops.lean (parsing / printing), vlib/c02.py (generator, comparison, Python oracle)",
    ]
    ctx.assumptions += [
        "the scratch arena is ScratchOwned::alloc(sb) (sb in the request; rounded up to 64 bytes by alloc_aligned); its *content* is an explicit input (pattern scr) that no operation may depend on",
        "all pool entries have the module's ring degree (the n-mismatch assertions are not exercised)",
        "glwe_normalize (cross radix) and glwe_lsh_assign theorems take the value specification of the per-column kernel as an explicit hypothesis (names *_modulo_norm); glwe_rsh / glwe_normalize_assign use the C08 value theorems; glwe_lsh / lsh_add / lsh_sub have no theorem (correspondence + oracle only)",
    ]
    ok, failures = ctx.proof_gate(["Poulpy.Props.C02"])
    broken = list(failures)
    binp = ctx.build_harness()
    drv = ctx.driver()
    if binp is None or drv is None:
        broken.append("harness or model driver does not build: " + (getattr(ctx, "build_error", "") or getattr(ctx, "driver_error", ""))[-600:])
        ctx.violation("C02 harness / driver does not build", {"broken": broken[:20]}, False)
        return ctx.finish(rule="")

    if getattr(ctx, "replay_file", None):
        rp = json.load(open(ctx.replay_file))
        progs = [rp["program"]]
    else:
        n_prog = 2000 if quick else 20000
        fams = [None] * 6 + ["linear", "rotate", "shift", "norm", "ggsw", "rshdefect", "radixmix", "invalid", "scratch"]
        progs = [gen_program(rng, force=rng.choice(fams)) for _ in range(n_prog)]

    hist = {"family": {}, "outcome": {}, "op": {}, "oracle": {}}
    known = {}          # key -> first witness
    real = []           # unkeyed / unknown failures
    CH = 400
    for off in range(0, len(progs), CH):
        chunk = progs[off:off + CH]
        mlines = [f"{k} ops {p['req']}" for k, p in enumerate(chunk)]
        rc, mout, merr = ctx.run_lines(drv, [], mlines)
        impl = {}
        for be in BACKENDS:
            ilines = [f"{k} be={be} {p['req']}" for k, p in enumerate(chunk)]
            rc, iout, ierr = ctx.run_lines(binp, ["ops"], ilines)
            impl[be] = iout
        for k, p in enumerate(chunk):
            m = ans_of(mout, k)
            fam = p["meta"]["family"]
            hist["family"][fam] = hist["family"].get(fam, 0) + 1
            last = m.split()[-1] if m.split() else "empty"
            oc = last.split(":")[0] + ":" + last.split(":")[1] if last.startswith(("panic", "err")) else "ok"
            hist["outcome"][oc] = hist["outcome"].get(oc, 0) + 1
            agree = True
            for be in BACKENDS:
                a = ans_of(impl[be], k)
                nsteps = len(a.split())
                for op in p["ops"][:nsteps]:
                    sc = shape_class(p, op)
                    hist["op"][op[0]] = hist["op"].get(op[0], 0) + 1
                    ctx.count_case((be,) + sc + (p["meta"]["cls"], p["meta"]["big"], p["meta"]["scr0"]),
                                   nontrivial=not a.startswith(("err", "empty")) and any(ch in a.split(":", 1)[-1] for ch in "123456789"))
                if a != m:
                    agree = False
                    ctx.disagreements += 1
                    if len(real) < 10:
                        # first differing step
                        ta, tm = a.split(), m.split()
                        j = next((i for i in range(min(len(ta), len(tm))) if ta[i] != tm[i]), min(len(ta), len(tm)))
                        real.append({"what": "model and implementation differ", "backend": be, "program": p, "request": f"be={be} {p['req']}",
                                     "first_differing_step": j, "op": p["ops"][j] if j < len(p["ops"]) else None,
                                     "implementation": (ta[j] if j < len(ta) else "missing")[:600], "model": (tm[j] if j < len(tm) else "missing")[:600]})
            # the property oracle on the implementation's answer (reference back end; the others
            # are bit-identical to the model or already reported)
            s = gen_secret(rng, p["n"])
            a0 = ans_of(impl["fft64ref"], k)
            for (i, verdict, detail, key) in oracle_program(p, a0, s):
                hist["oracle"][verdict] = hist["oracle"].get(verdict, 0) + 1
                if verdict == "fail":
                    ctx.oracle_failures += 1
                    w = {"program": p, "request": f"be=fft64ref {p['req']}", "step": i, "op": p["ops"][i], "secret": s, "detail": detail,
                         "implementation_answer": a0[:1500], "model_agrees_with_implementation": agree,
                         "rerun": "./check C02 --replay <this file>"}
                    if key not in known:
                        known[key] = w
            if len(ctx.samples) < 6 and off == 0 and k < 6:
                ctx.samples.append({"request": ("be=fft64ref " + p["req"])[:500], "implementation": ans_of(impl["fft64ref"], k)[:300], "model": m[:300]})

    for r in real[:5]:
        # which side does the oracle blame?
        ctx.violation("C02 correspondence: model and implementation differ", r, False)
    for key, w in sorted(known.items()):
        ctx.violation("noise-free operation does not commute with decryption: " + w["detail"][:300], w, True, key=key)
    if broken and not ctx.violations:
        ctx.violation("C02 obligation no longer checks", {"broken": broken[:20]}, False)
    ctx.cov["histograms"] = hist
    ctx.cov["programs"] = len(progs)
    ctx.cov["oracle_failure_keys"] = sorted(known.keys())
    return ctx.finish(rule="random straight-line programs (1..8 ops) over pools of 3..6 GLWE (+2..3 GGSW) with explicit limbs; families mixed/linear/rotate/shift/norm/ggsw/"
                           "rshdefect/radixmix/invalid; N in {8,16}; ranks 0..3 mixed; sizes 1..5; base2k 2..50 (+ second radix); every program on 4 back ends vs the model, "
                           "every step compared bit for bit; distinct = (back end, op, result rank, result size class, per-operand (size </=/>, rank 0/=/</>, radix =/!), "
                           "rotation / shift class, value class, radix class, scratch zero?); non-trivial = answer contains a non-zero limb; "
                           "the Python oracle re-checks the property on the implementation's answers step by step")
