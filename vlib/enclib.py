"""Shared helpers of the encryption-family checks (C01, C19, C06): wire syntax, exact big-integer
ring arithmetic (the independent oracle), case generation vocabulary."""
import math

BES = ["fft64ref", "fft64avx", "ntt120ref", "ntt120avx"]


def bits_of(be):
    return 128 if be.startswith("ntt120") else 64


# ----------------------------------------------------------------------------- wire syntax
def parse_col(s):
    if s == "-" or s == "":
        return []
    return [[int(x) for x in limb.split(",")] for limb in s.split("|")]


def parse_cols(s):
    if s == "-" or s == "":
        return []
    return [parse_col(c) for c in s.split(";")]


def show_col(c):
    if not c:
        return "-"
    return "|".join(",".join(str(x) for x in limb) for limb in c)


def show_cols(cs):
    if not cs:
        return "-"
    return ";".join(show_col(c) for c in cs)


def parse_answer(line):
    """`id ok k=v k=v` -> (id, status, dict)"""
    t = line.split()
    if len(t) < 2:
        return (t[0] if t else "?"), "empty", {}
    d = {}
    for x in t[2:]:
        if "=" in x:
            k, v = x.split("=", 1)
            d[k] = v
    return t[0], t[1], d


# ----------------------------------------------------------------------------- exact arithmetic (oracle)
def negmul(a, b):
    """exact product in Z[X]/(X^n+1), n = len(b)"""
    n = len(b)
    r = [0] * n
    for i, x in enumerate(a):
        if x == 0:
            continue
        for j, y in enumerate(b):
            k = i + j
            if k < n:
                r[k] += x * y
            else:
                r[k - n] -= x * y
    return r


def val_coeff(b, col, t):
    v = 0
    for limb in col:
        v = (v << b) + limb[t]
    return v


def phase_vals(b, sk, ct, n):
    """integer value (last limb weight 1) of every coefficient of body + sum mask_i * s_i"""
    size = len(ct[0])
    out = []
    limbs = []
    for j in range(size):
        acc = list(ct[0][j])
        for i, s in enumerate(sk):
            p = negmul(s, ct[i + 1][j])
            acc = [x + y for x, y in zip(acc, p)]
        limbs.append(acc)
    for t in range(n):
        out.append(val_coeff(b, limbs, t))
    return out


def centered(x, m):
    x %= m
    return x - m if x > m // 2 else x


def torus_dist(x, px, y, py):
    """|x/2^px - y/2^py| on R/Z as (num, log2 den)"""
    m = px + py
    d = ((x << py) - (y << px)) % (1 << m)
    if d > (1 << (m - 1)):
        d = (1 << m) - d
    return d, m


def target_limb_and_scale(k, b):
    limb = -(-k // b) - 1
    return limb, (limb + 1) * b - k


def round_half_away(x):
    return int(math.floor(abs(x) + 0.5)) * (1 if x >= 0 else -1)


# ----------------------------------------------------------------------------- generator vocabulary
def gen_dist(rng, n):
    c = rng.below(8)
    if c == 0:
        return "tp:0.5"
    if c == 1:
        return "tp:0.1"
    if c == 2:
        return f"th:{rng.range(0, n)}"
    if c == 3:
        return "bp:0.5"
    if c == 4:
        return f"bh:{rng.range(0, n)}"
    if c == 5:
        return f"bb:{rng.choice([1, 2, 4, n])}"
    if c == 6:
        return "z"
    return "tp:1.0"


def gen_message(rng, n, b, size, cls):
    """`size` limbs of n coefficients; value classes of Appendix C"""
    hi = (1 << (b - 1)) - 1
    lo = -(1 << (b - 1))
    out = []
    for j in range(size):
        limb = []
        for i in range(n):
            if cls == "zero":
                v = 0
            elif cls == "max":
                v = hi
            elif cls == "min":
                v = lo
            elif cls == "alt":
                v = hi if (i + j) % 2 == 0 else lo
            elif cls == "ripple":
                v = hi if j + 1 < size else (1 if b > 1 else 0)
            elif cls == "single":
                v = (hi if hi else lo) if (i == 0 and j == 0) else 0
            elif cls == "unnorm":
                w = min(b + 3, 60)
                v = rng.range(-(1 << w), 1 << w)
            else:
                v = rng.range(lo, hi)
            limb.append(v)
        out.append(limb)
    return out


MSG_CLASSES = ["rand", "rand", "rand", "zero", "max", "min", "alt", "ripple", "single", "unnorm"]


def gen_radix(rng, be, n):
    """radix within the back end's magnitude domain: FFT64 needs n*2^(b-1)*|s|_inf <= 2^50"""
    if be.startswith("fft64"):
        c = rng.below(10)
        if c < 6:
            return rng.range(1, 17)
        if c < 9:
            return rng.range(18, 40)
        return rng.range(41, 52 - n.bit_length())        # n*2^(b-1) <= 2^50: b <= 48 (N=8), 47 (N=16), 46 (N=32)
    c = rng.below(10)
    if c < 4:
        return rng.range(1, 17)
    if c < 8:
        return rng.range(18, 45)
    return rng.range(46, 52)


def gen_k(rng, b, size):
    """precision with ceil(k/b) = size, mostly not a multiple of b"""
    if b == 1 or rng.chance(1, 6):
        return size * b
    return (size - 1) * b + rng.range(1, b - 1)
