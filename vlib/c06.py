"""C06 — fresh ciphertexts carry the configured randomness: full noise, uniform mask.

Gate 1 (proof): lake build Poulpy.Props.C06 + axiom audit (mask non-interference, body-only error seed,
        counting theorem of the word→digit map, never-rejects, noise placement).
Gate 2 (raw-stream replay, `pvh rnd masks` vs `pdriver enc masks`): for every encryptable layout (GLWE, public key,
        LWE, GGLWE, GGSW, switching / automorphism / tensor / GGLWE→GGSW keys) the *standard* routine is run with
        source_xa = Source::new(seed); the same words are drawn from an equal-seed Source and the Lean model
        (`Sampling.vecFillUniform` through `Core.drawMasks`, cells in the routine's loop order) must reproduce every
        mask coefficient of every cell — i.e. the mask is a function of the mask seed only, consumed in the modelled
        order with the modelled word→digit map, on all four back ends.
Gate 3 (controlled changes on the real code, `pvh rnd nonint`): same inputs twice → identical bytes; other plaintext /
        other secret with the same xa → identical masks; other xe → identical masks and a different body.
Gate 4 (statistical acceptance, `pvh rnd stats` — correspondence of a probabilistic model, NOT a proof): the integer errors
        read off the exact phases of >= 2^14 coefficients per layout must have Σe²/(m·V) inside the two-sided
        Laurent–Massart χ² band and |Σe| inside the Gaussian band, each with false-alarm probability < 2^-41,
        where V = (σ·2^scale)²·τ + 1/12 (τ = variance factor of the truncation at bound/σ, 1/12 = rounding), and
        max|e| <= round(bound·2^scale).
"""
import math

from . import common  # noqa: F401
from .enclib import BES, parse_answer

LAYOUTS = ["glwe", "pk", "lwe", "gglwe", "ggsw", "ksk", "atk", "tsk", "g2g"]
X = 41 * math.log(2)     # e^-X = 2^-41 per tail


def trunc_factor(c):
    """variance of a standard normal truncated to [-c, c]"""
    phi = math.exp(-c * c / 2) / math.sqrt(2 * math.pi)
    Phi = 0.5 * (1 + math.erf(c / math.sqrt(2)))
    return 1 - 2 * c * phi / (2 * Phi - 1)


def gen_small(rng, lay, be):
    n = rng.choice([8, 16])
    rank = rng.range(1, 3) if lay not in ("tsk", "g2g") else rng.range(1, 2)
    b = rng.range(2, 17) if be.startswith("fft64") else rng.choice([rng.range(2, 17), rng.range(18, 30)])
    dsize = rng.range(1, 2)
    dnum = rng.range(1, 2)
    size = rng.range(1, 3) if lay in ("glwe", "pk", "lwe") else max(dnum * dsize + rng.range(0, 1), dsize + 1)
    while b * size > 96:
        b -= 1
    k = (size - 1) * b + rng.range(1, b)
    c = dict(layout=lay, be=be, n=n, b=b, k=k, kxe=k, rank=rank, rank_in=rng.range(1, 2) if lay in ("gglwe", "ksk") else rank,
             dnum=dnum, dsize=dsize, size=size, sxs=rng.next(), sxa=rng.next(), sxe=rng.next(), p=rng.choice([3, 5, -1, -3]))
    if lay == "lwe":
        c["nl"] = rng.choice([3, 7, 12, 22])
        c["rank"] = 0
    return c


def line(i, op, c, extra=""):
    keys = ["layout", "be", "n", "b", "k", "kxe", "rank", "rank_in", "dnum", "dsize", "sxs", "sxa", "sxe", "p"]
    if "nl" in c:
        keys.append("nl")
    return f"{i} {op} " + " ".join(f"{k}={c[k]}" for k in keys) + extra


def cells_rank(c):
    """(number of mask columns per cell, coefficients per limb) as the model draws them"""
    if c["layout"] == "lwe":
        return 1, c["nl"] + 1
    return c["rank"], c["n"]


def run(ctx):
    rng = ctx.rng
    quick = ctx.tier == "quick"
    ctx.trusted += ["harness/src/cmd_rnd.rs (public API only; exact phases in i128)", "lean/Poulpy/Driver/Enc.lean `masks` op"]
    ctx.assumptions += [
        "ChaCha8Rng delivers uniform independent 64-bit words (not modelled; the counting theorem turns that into uniform digits)",
        "rand_distr::Normal + the rejection loop deliver a Gaussian of the configured sigma truncated at the bound: tied only by the statistical "
        "acceptance test below — correspondence of a probabilistic model, not a proof",
    ]
    broken = []
    ok, failures = ctx.proof_gate(["Poulpy.Props.C06"])
    broken += failures
    binp = ctx.build_harness()
    drv = ctx.driver()
    if binp is None:
        broken.append("harness build failed: " + getattr(ctx, "build_error", "")[-600:])
    if drv is None:
        broken.append("model driver does not build")
    witness = None
    if binp and drv:
        # ---------------- gate 2: raw-stream replay
        per = 14 if quick else 120
        cases = [gen_small(rng, lay, be) for lay in LAYOUTS for be in BES for _ in range(per)]
        hl = [line(i, "masks", c) for i, c in enumerate(cases)]
        rc, hout, err = ctx.run_lines(binp, ["rnd"], hl, timeout=3000)
        if rc != 0 or len(hout) != len(cases):
            broken.append(f"pvh rnd masks failed rc={rc} {len(hout)}/{len(cases)} {err[-300:]}")
        else:
            ml, idx = [], []
            for i, (c, ln) in enumerate(zip(cases, hout)):
                _, st, a = parse_answer(ln)
                if st != "ok":
                    ctx.disagreements += 1
                    if len(broken) < 20:
                        broken.append(f"implementation failed: {hl[i]} -> {ln[:140]}")
                    continue
                r, nn = cells_rank(c)
                ml.append(f"{i} enc masks b={c['b']} n={nn} size={c['size']} rank={r} cells={a['cells']} xa={a['words']}")
                idx.append(i)
            rc2, mout, err2 = ctx.run_lines(drv, [], ml, timeout=3000)
            if rc2 != 0 or len(mout) != len(ml):
                broken.append(f"pdriver masks failed rc={rc2} {len(mout)}/{len(ml)}")
            else:
                cells_total = 0
                coeffs = 0
                for i, ln in zip(idx, mout):
                    c = cases[i]
                    _, st, a = parse_answer(hout[i])
                    t = ln.split()
                    want = a["masks"].split(";") if a["masks"] != "-" else []
                    got = t[1].split(";") if len(t) > 1 and t[1] != "-" else []
                    same = len(want) == len(got)
                    if same:
                        for w, g in zip(want, got):
                            wv, gv = w.split(","), g.split(",")
                            if c["layout"] == "lwe":
                                nn = c["nl"] + 1
                                wv = [x for j, x in enumerate(wv) if j % nn != 0]
                                gv = [x for j, x in enumerate(gv) if j % nn != 0]
                            coeffs += len(wv)
                            if wv != gv:
                                same = False
                    cells_total += len(want)
                    ctx.count_case(("masks", c["layout"], c["be"], c["n"], c["rank"], c["rank_in"], c["dnum"], c["dsize"], c["size"], min(c["b"], 18) // 4))
                    if not same:
                        ctx.disagreements += 1
                        if witness is None:
                            witness = {"case": hl[i], "implementation": hout[i][:600], "model": ln[:600],
                                       "oracle": "masks are not the modelled function of the raw words of Source::new(seed)"}
                    if len(ctx.samples) < 6 and i % 97 == 0:
                        ctx.samples.append({"request": hl[i], "implementation": hout[i][:300], "model": ln[:300]})
                ctx.cov["mask_replay"] = {"objects": len(idx), "cells": cells_total, "mask_coefficients": coeffs}
        # ---------------- gate 3: controlled changes
        cases3 = [gen_small(rng, lay, be) for lay in LAYOUTS for be in BES for _ in range(4 if quick else 40)]
        hl3 = [line(i, "nonint", c) for i, c in enumerate(cases3)]
        rc, out3, err = ctx.run_lines(binp, ["rnd"], hl3, timeout=3000)
        flags = {"det": 0, "mask_pt": 0, "mask_sk": 0, "xe_masks": 0, "xe_body": 0}
        if rc != 0 or len(out3) != len(cases3):
            broken.append(f"pvh rnd nonint failed rc={rc} {err[-300:]}")
        else:
            for c, ln, req in zip(cases3, out3, hl3):
                _, st, a = parse_answer(ln)
                ctx.count_case(("nonint", c["layout"], c["be"], c["rank"], c["size"]))
                if st != "ok":
                    ctx.disagreements += 1
                    broken.append(f"implementation failed: {req} -> {ln[:140]}")
                    continue
                for k in flags:
                    if a.get(k) == "1":
                        flags[k] += 1
                    elif witness is None:
                        witness = {"case": req, "implementation": ln, "oracle": f"controlled change '{k}' failed"}
                        ctx.oracle_failures += 1
            ctx.cov["controlled_changes"] = {"objects": len(cases3), **flags}
        # ---------------- gate 4: statistics
        stats = {}
        sig, bndf = 3.2, 6.0
        tau = trunc_factor(bndf)
        plan = {
            "glwe": dict(n=256, rank=1, dnum=1, dsize=1, reps=64, k=37), "pk": dict(n=256, rank=2, dnum=1, dsize=1, reps=64, k=37),
            "lwe": dict(n=8, nl=16, rank=0, dnum=1, dsize=1, reps=16384, k=37),
            "gglwe": dict(n=128, rank=1, rank_in=2, dnum=2, dsize=1, reps=32, k=37), "ggsw": dict(n=128, rank=1, dnum=2, dsize=1, reps=32, k=37),
            "ksk": dict(n=128, rank=1, rank_in=2, dnum=2, dsize=1, reps=32, k=37), "atk": dict(n=128, rank=2, dnum=2, dsize=1, reps=32, k=37),
            "tsk": dict(n=64, rank=2, dnum=2, dsize=1, reps=43, k=37), "g2g": dict(n=64, rank=2, dnum=2, dsize=1, reps=32, k=37),
        }
        hl4 = []
        for j, (lay, p) in enumerate(plan.items()):
            c = dict(layout=lay, be=BES[j % 4], b=12, kxe=p["k"], rank_in=p.get("rank_in", p["rank"]), sxs=rng.next(), sxa=rng.next(), sxe=rng.next(), p=3)
            c.update({k: v for k, v in p.items() if k != "reps"})
            reps = p["reps"] * (1 if quick else 8)
            hl4.append(line(j, "stats", c, f" reps={reps} sig={sig} bnd={sig * bndf}"))
        rc, out4, err = ctx.run_lines(binp, ["rnd"], hl4, timeout=3000)
        if rc != 0 or len(out4) != len(hl4):
            broken.append(f"pvh rnd stats failed rc={rc} {err[-300:]}")
        else:
            for req, ln, lay in zip(hl4, out4, plan):
                _, st, a = parse_answer(ln)
                if st != "ok":
                    broken.append(f"stats failed: {req} -> {ln[:140]}")
                    continue
                m, s1, s2, mx, scale = int(a["m"]), int(a["sum"]), int(a["sumsq"]), int(a["maxabs"]), int(a["scale"])
                V = (sig * (1 << scale)) ** 2 * tau + 1.0 / 12
                T = s2 / (m * V)
                lo = 1 - 2 * math.sqrt(X / m)
                hi = 1 + 2 * math.sqrt(X / m) + 2 * X / m
                mean_lim = math.sqrt(2 * X * m * V)
                emax = int(sig * bndf * (1 << scale) + 0.5)
                okv = m >= (1 << 14) and lo <= T <= hi and abs(s1) <= mean_lim and mx <= emax
                stats[lay] = {"m": m, "std_over_sigma": round(math.sqrt(s2 / m) / (sig * (1 << scale)), 5), "T": round(T, 5), "band": [round(lo, 5), round(hi, 5)],
                              "mean_over_limit": round(abs(s1) / mean_lim, 4), "maxabs_over_bound": round(mx / emax, 4), "accepted": okv}
                ctx.count_case(("stats", lay))
                if not okv:
                    ctx.oracle_failures += 1
                    if witness is None:
                        witness = {"case": req, "implementation": ln, "oracle": f"error statistics outside the acceptance band: {stats[lay]}"}
            ctx.cov["error_statistics"] = stats
            ctx.cov["error_statistics_label"] = "correspondence of a probabilistic model, not a proof; false-alarm probability < 2^-40 per layout"
    if witness is not None:
        ctx.violation("a fresh ciphertext does not carry the configured randomness", witness, True)
    elif broken:
        ctx.log("broken:", *broken[:6])
        ctx.violation("C06 obligation or correspondence no longer checks", {"broken": broken[:20]}, False)
    return ctx.finish(rule="mask replay: object = (layout in 9 encryptable layouts, back end, N, rank, rank_in, dnum, dsize, size, radix bucket), every mask coefficient of "
                           "every cell compared with the model; controlled changes: 5 comparisons per object; statistics: one acceptance test per layout over >= 2^14 "
                           "coefficients; distinct = the tuples above")
