"""C01 — encrypt-then-decrypt returns the message up to the configured bounded error.

Gate 1 (proof): lake build Poulpy.Props.C01 + axiom audit.
Gate 2 (correspondence): `pvh enc` runs the real glwe_encrypt_sk / glwe_encrypt_zero_sk /
        glwe_compressed_encrypt_sk + decompress / glwe_public_key_generate + glwe_encrypt_pk /
        lwe_encrypt_sk and the real glwe_decrypt / lwe_decrypt on all four back ends and prints secret,
        ciphertext, replayed error, decryption; `pdriver enc` recomputes ciphertext and decryption from
        (message, masks read from the ciphertext, error integers, secret).  Both must agree limb for limb.
Gate 4 (key generation, `pvh rnd keys` / `pvh rndb brk_keys` vs `pdriver enc keygen`): every standard key routine (gglwe, ggsw,
        switching / automorphism / tensor / GGLWE->GGSW / LWE switching / GLWE->LWE / LWE->GLWE / blind-rotation keys) is recomputed bit for bit
        by the model from (secrets, words of source_xa, replayed errors) — the objects of the `…_encrypt_sk_wellformed` theorems — and an
        independent Python oracle checks the consumers' key hypothesis (phase = s_in*gadget + e*2^.. mod 2^(b*size)) on the real key.
Gate 3 (property oracle, independent of the model, Python big integers): exact phase of the printed
        ciphertext under the printed secret == message (at its position) + placed error (mod 1);
        |error| <= round(bound * 2^scale) on the limb target_limb_and_scale names; decryption within
        one unit of the plaintext's last limb of the phase, digits normalised.
"""
from . import common  # noqa: F401
from .enclib import (BES, MSG_CLASSES, bits_of, centered, gen_dist, gen_k, gen_message, gen_radix, negmul, parse_answer, parse_col,
                     parse_cols, phase_vals, show_col, show_cols, target_limb_and_scale, torus_dist, val_coeff)

OPS = ["glwe_sk", "glwe_sk", "glwe_sk", "glwe_zero_sk", "glwe_cmp", "glwe_pk", "glwe_pk", "lwe_sk", "lwe_sk"]


def gen_case(rng, idx):
    op = OPS[idx % len(OPS)] if idx < 4 * len(OPS) else rng.choice(OPS)
    be = BES[idx % 4] if idx < 64 else rng.choice(BES)
    n = rng.choice([8, 16, 32])
    rank = rng.range(0, 3)
    b = gen_radix(rng, be, n)
    if be.startswith("fft64") and rng.chance(1, 6):
        # top of the FFT64 magnitude domain: N = 8 allows radices up to 2^48 (n*2^(b-1)*|s|_inf <= 2^50)
        n = 8
        b = rng.range(41, 48)
    size = rng.range(1, 5)
    if b >= 40:
        size = rng.range(1, 3)
    k = gen_k(rng, b, size)
    c = rng.below(6)
    if c < 3:
        kxe = k
    elif c == 3:
        kxe = rng.range(1, k)
    elif c == 4:
        kxe = rng.range(k, size * b)
    else:
        kxe = size * b
    # plaintext handed to the encryption: same radix, size <, =, > ct size
    rel = rng.choice(["lt", "eq", "eq", "gt"])
    if rel == "lt" and size > 1:
        psize = rng.range(1, size - 1)
    elif rel == "gt":
        psize = size + rng.range(1, 2)
    else:
        psize = size
    ptk = gen_k(rng, b, psize)
    cls = rng.choice(MSG_CLASSES)
    # plaintext receiving the decryption: same or different radix, precision <, =, >
    if rng.chance(2, 5):
        db = gen_radix(rng, be, n)
    else:
        db = b
    drel = rng.choice(["lt", "eq", "eq", "gt"])
    tot = b * size
    if drel == "lt":
        dk = rng.range(1, max(1, tot - 1))
    elif drel == "gt":
        dk = tot + rng.range(1, 2 * db)
    else:
        dk = tot
    dk = max(1, dk)
    sig, bnd = rng.choice([(3.2, 19.2), (3.2, 19.2), (1.0, 1.0), (8.0, 48.0), (3.2, 6.4)])
    case = dict(op=op, be=be, n=n, rank=rank, b=b, k=k, kxe=kxe, sig=sig, bnd=bnd, dist=gen_dist(rng, n), sxs=rng.next(), sxa=rng.next(),
                sxe=rng.next(), ptb=b, ptk=ptk, db=db, dk=dk, cls=cls, size=size, psize=psize)
    if op == "lwe_sk":
        case["nl"] = rng.choice([1, 3, 7, 8, 15, 22, 31])
        case["rank"] = 0
        case["dist"] = gen_dist(rng, case["nl"])
        if case["dist"].startswith("bb"):
            case["dist"] = "bb:" + str(rng.choice([d for d in (1, 2, 3, 4, 5, 7, 8, 11, 31) if case["nl"] % d == 0]))
        case["pt"] = gen_message(rng, 1, b, psize, cls)
    else:
        case["pt"] = gen_message(rng, n, b, psize, cls)
    if op == "glwe_pk":
        # public key with the same number of limbs (exact oracle) or a different one
        if rng.chance(3, 4):
            kpk = gen_k(rng, b, size)
        else:
            kpk = gen_k(rng, b, max(1, size + rng.range(-1, 1)))
        spk = -(-kpk // b)
        case["kpk"] = kpk
        case["kxepk"] = rng.choice([kpk, kpk, rng.range(1, spk * b)])
        case["sxu"] = rng.next()
        case["sxe2"] = rng.next()
        # the error of column i is added on limb(kxe) of a size_pk-limb accumulator
        if target_limb_and_scale(kxe, b)[0] >= spk:
            case["kxe"] = min(kxe, spk * b)
        if case["dist"] == "z":
            case["dist"] = "tp:0.5"
    return case


def harness_line(i, c):
    keys = ["be", "n", "rank", "b", "k", "kxe", "sig", "bnd", "dist", "sxs", "sxa", "sxe", "ptb", "ptk", "db", "dk"]
    if c["op"] == "lwe_sk":
        keys.append("nl")
    if c["op"] == "glwe_pk":
        keys += ["kpk", "kxepk", "sxu", "sxe2"]
    s = f"{i} {c['op']} " + " ".join(f"{k}={c[k]}" for k in keys)
    if c["op"] != "glwe_zero_sk":
        s += " pt=" + show_col(c["pt"])
    return s


def err_poly(ecol, limb):
    return ecol[limb] if limb < len(ecol) else []


def model_line(i, c, a):
    """request for `pdriver enc` built from the implementation's printed values"""
    b, size = c["b"], c["size"]
    ds = -(-c["dk"] // c["db"])
    limb = target_limb_and_scale(c["kxe"], b)[0]
    head = f"{i} enc {'glwe_sk' if c['op'] in ('glwe_sk', 'glwe_zero_sk', 'glwe_cmp') else c['op']} bits={bits_of(c['be'])} " \
           f"n={c['n']} b={b} k={c['k']} kxe={c['kxe']} size={size} db={c['db']} ds={ds}"
    if c["op"] == "lwe_sk":
        e = parse_col(a["e"])
        ev = e[limb][0] if limb < len(e) else 0
        return head + f" sk={a['sk']} ct={a['ct']} e={ev} pt={show_col(c['pt'])}"
    if c["op"] == "glwe_pk":
        es = parse_cols(a["e"])
        polys = ";".join(",".join(str(x) for x in err_poly(col, limb)) for col in es)
        return head + f" sk={a['sk']} pk={a['pk']} u={a['u']} es={polys} pt={show_col(c['pt'])}"
    e = parse_col(a["e"])
    line = head + f" sk={a['sk']} ct={a['ct']} e={','.join(str(x) for x in err_poly(e, limb))}"
    if c["op"] != "glwe_zero_sk":
        line += " pt=" + show_col(c["pt"])
    return line


def msg_vals(c, n, size):
    """integer value (at the ciphertext's size) of the message as the encryption reads it:
    limbs beyond the ciphertext are dropped, missing limbs are zero"""
    if c["op"] == "glwe_zero_sk":
        return [0] * n
    pt = c["pt"]
    b = c["b"]
    out = []
    for t in range(n):
        v = 0
        for j in range(size):
            v = (v << b) + (pt[j][t] if j < len(pt) else 0)
        out.append(v)
    return out


def oracle(c, a):
    """the property statement evaluated directly on the implementation's outputs; None = holds"""
    b, size, n = c["b"], c["size"], c["n"]
    mod = 1 << (b * size)
    limb, scale = target_limb_and_scale(c["kxe"], b)
    ebound = int(c["bnd"] * (1 << scale) + 0.5)
    unit = 1 << (b * (size - 1 - limb)) if limb < size else 0
    dec = parse_col(a["dec"])
    db = c["db"]
    ds = len(dec)
    if c["op"] == "lwe_sk":
        sk = [int(x) for x in a["sk"].split(",")] if a["sk"] != "-" else []
        ct = parse_col(a["ct"])
        e = parse_col(a["e"])
        if any(x != 0 for j, l in enumerate(e) if j != limb for x in l):
            return "error placed on a limb other than ceil(k/b)-1"
        ev = e[limb][0]
        if abs(ev) > ebound:
            return f"error {ev} exceeds bound*2^scale = {ebound}"
        ph = 0
        for l in ct:
            ph = (ph << b) + l[0] + sum(x * y for x, y in zip(l[1:], sk))
        m = 0
        for j in range(size):
            m = (m << b) + (c["pt"][j][0] if j < len(c["pt"]) else 0)
        if (ph - m - ev * unit) % mod != 0:
            return f"phase - message - error = {centered(ph - m - ev * unit, mod)} (mod 2^{b * size})"
        phs = [ph]
        nn = 1
    else:
        sk = [col[0] for col in parse_cols(a["sk"])] if a["sk"] != "-" else []
        ct = parse_cols(a["ct"])
        phs = phase_vals(b, sk, ct, n)
        ms = msg_vals(c, n, size)
        nn = n
        if c["op"] == "glwe_pk":
            es = parse_cols(a["e"])
            spk = len(es[0])
            for col in es:
                if any(x != 0 for j, l in enumerate(col) if j != limb for x in l):
                    return "pk error placed on a limb other than ceil(k/b)-1"
                if any(abs(x) > ebound for x in col[limb]):
                    return "pk error exceeds bound*2^scale"
            epk = parse_col(a["epk"])
            lpk, spk_scale = target_limb_and_scale(c["kxepk"], b)
            ebound_pk = int(c["bnd"] * (1 << spk_scale) + 0.5)
            if any(abs(x) > ebound_pk for x in epk[lpk]):
                return "public-key error exceeds bound*2^scale"
            u = [int(x) for x in a["u"].split(",")]
            n1 = sum(abs(x) for x in u)
            s1 = sum(sum(abs(x) for x in s) for s in sk)
            if spk == size:
                upk = 1 << (b * (spk - 1 - lpk))
                tot = [x * upk for x in negmul(u, epk[lpk])]
                tot = [x + y * unit for x, y in zip(tot, es[0][limb])]
                for i, s in enumerate(sk):
                    tot = [x + y * unit for x, y in zip(tot, negmul(es[i + 1][limb], s))]
                for t in range(n):
                    if (phs[t] - ms[t] - tot[t]) % mod != 0:
                        return f"pk: phase - message - (u*e_pk + e_0 + sum e_i*s_i) != 0 at coefficient {t}"
            # the bound of the statement (always checked)
            upk_t = (ebound_pk << (b * size)) >> (b * (lpk + 1))     # e_pk unit at ct precision (floor)
            lim = n1 * (upk_t + 1) + (1 + s1) * (ebound * unit + 1) + (1 + s1) * (1 << max(0, b * (size - spk)))
            for t in range(n):
                if abs(centered(phs[t] - ms[t], mod)) > lim:
                    return f"pk: |phase - message| = {abs(centered(phs[t] - ms[t], mod))} > bound*(1+|u|_1+sum|s_i|_1) = {lim}"
        else:
            e = parse_col(a["e"])
            if any(x != 0 for j, l in enumerate(e) if j != limb for x in l):
                return "error placed on a limb other than ceil(k/b)-1"
            if any(abs(x) > ebound for x in e[limb]):
                return f"error exceeds bound*2^scale = {ebound}"
            for t in range(n):
                if (phs[t] - ms[t] - e[limb][t] * unit) % mod != 0:
                    return f"phase - message - error = {centered(phs[t] - ms[t] - e[limb][t] * unit, mod)} at coefficient {t}"
    # decryption: within one unit of the plaintext's last limb of the exact phase, digits normalised
    for t in range(nn):
        dv = val_coeff(db, dec, t)
        d, m = torus_dist(dv, db * ds, phs[t], b * size)
        if d > (1 << (b * size)):
            return f"decryption differs from the phase by {d}/2^{m} > one unit 2^-{db * ds} at coefficient {t}"
    return None


def unnormalised(c, a):
    """digits of the decrypted plaintext outside [-2^(db-1), 2^(db-1)) (not part of C01's statement;
    counted, and reported to the C08 slice: only the cross-radix normalisation produces them)"""
    dec = parse_col(a["dec"])
    db = c["db"]
    lo, hi = -(1 << (db - 1)), (1 << (db - 1)) - 1
    return sum(1 for l in dec for x in l if x < lo or x > hi)


def beyond_domain_probe(ctx, binp, drv, rng, count):
    """FFT64 with N = 8 and radices 49, 50 (the property's upper limit): outside the a-priori magnitude domain
    (n*2^(b-1) = 2^51, 2^52 > 2^50), so equality with the exact model is recorded, not demanded; the property
    oracle is still evaluated and a panic is still a failure."""
    cases = []
    for i in range(count):
        c = gen_case(rng, 10 ** 6 + i)
        while c["op"] == "lwe_sk":
            c = gen_case(rng, 10 ** 6 + i)
        c["be"] = "fft64ref" if i % 2 == 0 else "fft64avx"
        c["n"] = 8
        b = 49 + (i // 2) % 2
        size = rng.range(1, 2)
        c.update(b=b, ptb=b, db=b, size=size, psize=size, k=gen_k(rng, b, size))
        c["kxe"] = c["k"]
        c["ptk"] = c["k"]
        c["dk"] = b * size
        c["dist"] = gen_dist(rng, 8)
        if c["op"] == "glwe_pk":
            c["kpk"] = c["k"]
            c["kxepk"] = c["k"]
            if c["dist"] == "z":
                c["dist"] = "tp:0.5"
        c["pt"] = gen_message(rng, 8, b, size, c["cls"])
        cases.append(c)
    hl = [harness_line(i, c) for i, c in enumerate(cases)]
    rc, out, err = ctx.run_lines(binp, ["enc"], hl, timeout=600)
    hist = {"cases": len(cases), "agree_with_exact_model": 0, "differ": 0, "oracle_ok": 0, "failed": 0}
    ml, idx = [], []
    for i, (c, ln) in enumerate(zip(cases, out)):
        _, st, a = parse_answer(ln)
        if st != "ok":
            hist["failed"] += 1
            continue
        ml.append(model_line(i, c, a))
        idx.append(i)
        if oracle(c, a) is None:
            hist["oracle_ok"] += 1
    rc2, mout, _ = ctx.run_lines(drv, [], ml, timeout=600)
    for i, ln in zip(idx, mout):
        a = parse_answer(out[i])[2]
        if ln.split()[1:3] == [a["ct"], a["dec"]]:
            hist["agree_with_exact_model"] += 1
        else:
            hist["differ"] += 1
    ctx.cov["fft64_beyond_magnitude_domain_b49_50_N8"] = hist


def mismatch_probe(ctx, binp, drv, rng, count):
    """plaintext whose base2k differs from the ciphertext's: every encryption routine must refuse it
    (assertion; sk paths since the repair of the recorded finding, the pk path always did) — a silently
    misplaced message is a violation.  The model (`Core.ptRadixOk`) must panic on the same cases."""
    cases = []
    for i in range(count):
        c = gen_case(rng, 10 ** 6 + i)
        if c["op"] == "glwe_zero_sk":
            c["op"] = "glwe_sk"
        ptb = c["b"]
        while ptb == c["b"]:
            ptb = rng.range(1, 17)
        c["ptb"] = ptb
        psz = rng.range(1, 3)
        c["ptk"] = psz * ptb
        c["kxe"] = c["k"]
        c["pt"] = gen_message(rng, 1 if c["op"] == "lwe_sk" else c["n"], ptb, psz, "rand")
        if not any(x for l in c["pt"] for x in l):
            c["pt"][0][0] = 1 if ptb > 1 else -1
        cases.append(c)
    hl = [harness_line(i, c) for i, c in enumerate(cases)]
    rc, out, err = ctx.run_lines(binp, ["enc"], hl, timeout=600)
    hist = {"silently-misplaced": 0, "refused": 0, "correct": 0}
    first = None
    for c, line, req in zip(cases, out, hl):
        _, st, a = parse_answer(line)
        if st != "ok":
            hist["refused"] += 1
            continue
        b, size = c["b"], c["size"]
        if c["op"] == "lwe_sk":
            sk = [int(x) for x in a["sk"].split(",")] if a["sk"] != "-" else []
            ph = 0
            for l in parse_col(a["ct"]):
                ph = (ph << b) + l[0] + sum(x * y for x, y in zip(l[1:], sk))
            phs = [ph]
        else:
            sk = [col[0] for col in parse_cols(a["sk"])] if a["sk"] != "-" else []
            phs = phase_vals(b, sk, parse_cols(a["ct"]), c["n"])
        # message at its own radix; allowed distance: error bound + one unit of the ct's last limb
        limb, scale = target_limb_and_scale(c["kxe"], b)
        ebound = int(c["bnd"] * (1 << scale) + 0.5) << (b * (size - 1 - limb))
        s1 = 1 + sum(sum(abs(x) for x in s) for s in sk) if c["op"] != "lwe_sk" else 1 + sum(abs(x) for x in sk)
        slack = ebound * (s1 + c["n"] + 1) + 2 if c["op"] == "glwe_pk" else ebound + 2
        bad = False
        for t, ph in enumerate(phs):
            mv = val_coeff(c["ptb"], c["pt"], t)
            d, m = torus_dist(ph, b * size, mv, c["ptb"] * len(c["pt"]))
            # d / 2^m  vs  slack / 2^(b*size)   (plus truncation of the message to the ct precision)
            if d > ((slack + 1) << (m - b * size)):
                bad = True
        if bad:
            hist["silently-misplaced"] += 1
            if first is None:
                first = {"case": req, "implementation": line[:600], "oracle": "phase != message at the plaintext's own radix",
                         "rerun": f"printf '%s\\n' '{req}' | harness/target/release/pvh enc"}
        else:
            hist["correct"] += 1
    # the model must refuse the same calls (sk paths; the pk model has no plaintext-radix input: the pk routine always asserted)
    if drv:
        ml = []
        for i, c in enumerate(cases):
            if c["op"] == "glwe_pk":
                continue
            op = "lwe_sk" if c["op"] == "lwe_sk" else "glwe_sk"
            ml.append(f"{i} enc {op} bits={bits_of(c['be'])} n={c['n']} b={c['b']} k={c['k']} kxe={c['kxe']} size={c['size']} db={c['db']} ds=1 "
                      f"ptb={c['ptb']} sk=- ct=- e=0 pt={show_col(c['pt'])}")
        rc2, mout, _ = ctx.run_lines(drv, [], ml, timeout=600)
        hist["model_refuses"] = sum(1 for l in mout if l.split()[1:2] == ["panic"])
        hist["model_lines"] = len(ml)
        if hist["model_refuses"] != len(ml) and first is None:
            first = {"oracle": "the model accepts a plaintext of another radix", "model": [l[:120] for l in mout if l.split()[1:2] != ["panic"]][:3]}
    ctx.cov["plaintext_radix_mismatch_probe"] = hist
    if first is not None:
        ctx.violation("an encryption routine accepted a plaintext of another base2k and encrypted the message at the wrong position",
                      first, True)


# ---------------------------------------------------------------------------------------------------------------
# key generation (the `…_encrypt_sk_wellformed` theorems): every key routine, standard form, recomputed by the model
KEY_LAYOUTS = ["gglwe", "ggsw", "ksk", "atk", "tsk", "g2g", "lksk", "g2l", "l2g", "brk"]


def sigma_inv(s):
    """X -> X^-1 on a coefficient list of length n (the embedding of LWE secrets)"""
    n = len(s)
    out = [0] * n
    out[0] = s[0]
    for i in range(1, n):
        out[n - i] = -s[i]
    return out


def switch_ring(s, n):
    """vec_znx_switch_ring into degree n >= len(s): X -> X^(n/len)"""
    d = len(s)
    if d == n:
        return list(s)
    gap = n // d
    out = [0] * n
    for k, x in enumerate(s):
        out[k * gap] = x
    return out


def key_oracle(lay, c, a, cells, es, limb):
    """the key hypothesis of the consumers, checked on the implementation's key with Python integers (independent of the model): for every
    row r and input column i: phase under the output secret == s_in_i * 2^(b*(size-(r+1)*dsize)) + e * 2^(b*(size-1-limb))  (mod 2^(b*size)).
    Layouts with an explicit input secret only (gglwe, ksk, lksk, g2l, l2g)."""
    n, b, size, dnum, dsize = c["n"], c["b"], c["size"], c["dnum"], c["dsize"]
    pad = lambda v: list(v) + [0] * (n - len(v))
    if lay not in ("gglwe", "ksk", "lksk", "g2l", "l2g"):
        return None
    sk = [col[0] for col in parse_cols(a["sk"])]
    skin = [col[0] for col in parse_cols(a["skin"])]
    lin = parse_col(a["sklwein"])[0] if a["sklwein"] != "-" else []
    lout = parse_col(a["sklweout"])[0] if a["sklweout"] != "-" else []
    if lay == "gglwe":
        msgs, sout = [col[0] for col in parse_cols(a["pt"])][:c["rank_in"]], sk
    elif lay == "ksk":
        msgs, sout = [switch_ring(x, n) for x in skin], [switch_ring(x, n) for x in sk]
    elif lay == "lksk":
        msgs, sout = [sigma_inv(pad(lin))], [sigma_inv(pad(lout))]
    elif lay == "g2l":
        msgs, sout = skin, [sigma_inv(pad(lout))]
    elif lay == "l2g":
        msgs, sout = [sigma_inv(pad(lin))], sk
    else:
        return None
    mod = 1 << (b * size)
    for i, m in enumerate(msgs):
        for r in range(dnum):
            kk = i * dnum + r
            ph = phase_vals(b, sout, cells[kk], n)
            for t in range(n):
                want = m[t] * (1 << (b * (size - (r + 1) * dsize))) + es[kk][t] * (1 << (b * (size - 1 - limb)))
                if (ph[t] - want) % mod != 0:
                    return (f"row {r} / input column {i}, coefficient {t}: phase {ph[t] % mod} != s_in*gadget + e = {want % mod} (mod 2^{b * size}); "
                            f"s_in[{t}]={m[t]} e={es[kk][t]}")
    return None


def gen_key_case(rng, idx):
    lay = KEY_LAYOUTS[idx % len(KEY_LAYOUTS)]
    be = BES[(idx // len(KEY_LAYOUTS)) % 4]
    n = rng.choice([8, 16])
    rank = rng.range(1, 3)
    if lay in ("tsk", "g2g") and rank == 3:
        rank = 2
    rank_in = rng.range(1, 3)
    b = rng.range(2, 17) if be.startswith("fft64") else rng.choice([rng.range(2, 17), rng.range(18, 30)])
    dsize = 1 if lay in ("lksk", "g2l", "l2g", "brk") else rng.range(1, 2)
    dnum = rng.range(1, 3)
    size = max(dnum * dsize + rng.range(0, 1), dsize + 1)
    if lay == "brk":
        size = dnum + 1
    while b * size > 96:
        b -= 1
    k = (size - 1) * b + rng.range(1, b)
    c = dict(layout=lay, be=be, n=n, b=b, k=k, kxe=k, rank=rank, rank_in=rank_in, dnum=dnum, dsize=dsize, size=size,
             dist=rng.choice(["tp:0.5", "bp:0.5", "tp:0.25", "tp:1.0"]), p=rng.choice([-1, 3, 5, -3, 7, -5]),
             nlin=rng.range(1, n), nlout=rng.range(1, n), sxs=rng.next(), sxa=rng.next(), sxe=rng.next())
    if lay == "lksk" and idx % 3 == 0:
        c["nlout"], c["nlin"] = min(c["nlin"], c["nlout"]), max(c["nlin"], c["nlout"])      # n_lwe_in > n_lwe_out, and the other way round below
    if lay == "ksk":
        degs = [n >> j for j in range(0, n.bit_length())]
        c["nin"] = rng.choice([n] + degs)
        c["nout"] = rng.choice([n] + degs)
    if lay in ("gglwe", "ggsw"):
        cols = rank_in if lay == "gglwe" else 1
        half = 1 << (b - 1)
        mode = rng.range(0, 2)
        coef = (lambda: rng.range(-3, 3)) if mode == 0 else ((lambda: rng.choice([half, -half, half - 1, 2 * half, 0, 1])) if mode == 1 else (lambda: rng.range(-(8 * half), 8 * half)))
        c["pt"] = ";".join(",".join(str(coef()) for _ in range(n)) for _ in range(cols))
    return c


def key_harness_line(i, c):
    if c["layout"] == "brk":
        return (f"{i} brk_keys layout=brk be={c['be']} n={c['n']} nl={c['nlin']} bs=1 rank={c['rank']} b={c['b']} kbrk={c['k']} "
                f"sxs={c['sxs']} sxa={c['sxa']} sxe={c['sxe']}")
    s = (f"{i} keys layout={c['layout']} be={c['be']} n={c['n']} b={c['b']} k={c['k']} kxe={c['kxe']} rank={c['rank']} rank_in={c['rank_in']} "
         f"dnum={c['dnum']} dsize={c['dsize']} p={c['p']} nlin={c['nlin']} nlout={c['nlout']} dist={c['dist']} sxs={c['sxs']} sxa={c['sxa']} sxe={c['sxe']}")
    if "pt" in c:
        s += f" pt={c['pt']}"
    if "nin" in c:
        s += f" nin={c['nin']} nout={c['nout']}"
    return s


def keygen_gate(ctx, binp, drv, rng, count, broken):
    cases = [gen_key_case(rng, i) for i in range(count)]
    lines = [key_harness_line(i, c) for i, c in enumerate(cases)]
    core = [(i, l) for i, l in enumerate(lines) if cases[i]["layout"] != "brk"]
    brk = [(i, l) for i, l in enumerate(lines) if cases[i]["layout"] == "brk"]
    out = {}
    for cmd, group in ((["rnd"], core), (["rndb"], brk)):
        rc, ho, err = ctx.run_lines(binp, cmd, [l for _, l in group], timeout=3000)
        if rc != 0 or len(ho) != len(group):
            broken.append(f"pvh {cmd[0]} keys failed rc={rc} lines={len(ho)}/{len(group)} {err[-300:]}")
            return None
        for (i, _), l in zip(group, ho):
            out[i] = l
    ml, idx = [], []
    parsed = {}
    witness = None
    for i, c in enumerate(cases):
        _, st, a = parse_answer(out[i])
        if st != "ok":
            ctx.disagreements += 1
            if len(broken) < 20:
                broken.append(f"key routine did not return: {lines[i][:200]} -> {out[i][:120]}")
            continue
        size = int(a["size"])
        limb = target_limb_and_scale(c["kxe"], c["b"])[0]
        ecols = parse_cols(a["e"])
        es = [col[limb] for col in ecols]
        parsed[i] = (a, es, limb, size)
        es_s = ";".join(",".join(str(x) for x in e) for e in es)
        dnum = int(a["dnum"]) if "dnum" in a else c["dnum"]
        ml.append(f"{i} enc keygen layout={c['layout']} bits={bits_of(c['be'])} n={c['n']} b={c['b']} k={c['k']} kxe={c['kxe']} size={size} "
                  f"rank={c['rank']} rank_in={c['rank_in']} dnum={dnum} dsize={c['dsize']} p={c['p']} sk={a['sk']} skin={a.get('skin', '-')} "
                  f"sklwein={a.get('sklwein', '-')} sklweout={a.get('sklweout', '-')} pt={a.get('pt', '-')} xa={a['words']} es={es_s}")
        idx.append(i)
    rc2, mout, err2 = ctx.run_lines(drv, [], ml, timeout=3000)
    if rc2 != 0 or len(mout) != len(ml):
        broken.append(f"pdriver keygen failed rc={rc2} lines={len(mout)}/{len(ml)} {err2[-300:]}")
        return None
    agree = 0
    cells_total = 0
    per = {}
    for i, ln in zip(idx, mout):
        c = cases[i]
        a, es, limb, size = parsed[i]
        t = ln.split()
        per[c["layout"]] = per.get(c["layout"], 0) + 1
        cells_total += int(a["cells"])
        ctx.count_case(("keygen", c["layout"], c["be"], c["n"], c["rank"], c["rank_in"], c["dnum"], c["dsize"], min(c["b"], 18) // 4,
                        c["dist"][:2], (c["nlin"] > c["nlout"]) - (c["nlin"] < c["nlout"]) if c["layout"] == "lksk" else 0, c.get("nin", 0), c.get("nout", 0)))
        if len(t) >= 2 and t[1] == a["obj"]:
            agree += 1
        else:
            ctx.disagreements += 1
            if len(broken) < 20:
                broken.append(f"model/implementation disagree on the generated key ({c['layout']}): {lines[i][:260]}")
                ctx.cov.setdefault("first_disagreement", {"harness": lines[i], "impl": out[i][:1500], "model": ln[:1500]})
        cells = [parse_cols(x) for x in a["obj"].split("/")]
        o = key_oracle(c["layout"], dict(c, size=size), a, cells, es, limb)
        if o is not None:
            ctx.oracle_failures += 1
            if witness is None:
                witness = {"case": lines[i], "object": c["layout"], "oracle": "key hypothesis of the consumers violated by the generated key: " + o,
                           "rerun": f"printf '%s\\n' '{lines[i]}' | harness/target/release/pvh rnd"}
    ctx.cov["keygen"] = {"keys": len(cases), "by_layout": per, "cells": cells_total, "model_agree": agree}
    return witness


def run(ctx):
    rng = ctx.rng
    quick = ctx.tier == "quick"
    ctx.trusted += [
        "harness/src/cmd_enc.rs + enc_common.rs (calls the public API; errors and secrets are obtained by replaying the same public sampling calls on equal-seed Sources)",
        "lean/Poulpy/Driver/Enc.lean (parsing/printing)",
    ]
    ctx.assumptions += [
        "rand_chacha / rand_distr are outside the model: masks are read back from the ciphertext, error integers from a replayed sampler call",
        "FFT64 back ends are exact inside the magnitude domain n*2^(b-1)*|s|_inf <= 2^50 (C07); cases are generated inside it",
    ]
    broken = []
    ok, failures = ctx.proof_gate(["Poulpy.Props.C01"])
    broken += failures
    binp = ctx.build_harness()
    drv = ctx.driver()
    if binp is None:
        broken.append("harness build failed: " + getattr(ctx, "build_error", "")[-600:])
    if drv is None:
        broken.append("model driver does not build: " + getattr(ctx, "driver_error", "")[-600:])
    witness = None
    if binp and drv:
        ncases = 1400 if quick else 40000
        cases = [gen_case(rng, i) for i in range(ncases)]
        hl = [harness_line(i, c) for i, c in enumerate(cases)]
        rc, hout, err = ctx.run_lines(binp, ["enc"], hl, timeout=3000)
        if rc != 0 or len(hout) != len(cases):
            broken.append(f"pvh enc failed rc={rc} lines={len(hout)}/{len(cases)} {err[-300:]}")
        else:
            answers = [parse_answer(l) for l in hout]
            ml = []
            idx = []
            hist = {}
            for i, (c, (aid, st, a)) in enumerate(zip(cases, answers)):
                hist[st] = hist.get(st, 0) + 1
                if st != "ok":
                    ctx.disagreements += 1
                    if len(broken) < 20:
                        broken.append(f"implementation did not return a ciphertext: {hl[i][:200]} -> {hout[i][:80]}")
                    continue
                ml.append(model_line(i, c, a))
                idx.append(i)
            rc2, mout, err2 = ctx.run_lines(drv, [], ml, timeout=3000)
            if rc2 != 0 or len(mout) != len(ml):
                broken.append(f"pdriver enc failed rc={rc2} lines={len(mout)}/{len(ml)} {err2[-300:]}")
            else:
                for i, ln in zip(idx, mout):
                    c = cases[i]
                    a = answers[i][2]
                    t = ln.split()
                    want = [a["ct"], a["dec"]]
                    got = t[1:3]
                    ds = -(-c["dk"] // c["db"])
                    key = (c["op"], c["be"], c["n"], c["rank"], min(c["b"], 18) // 3, c["size"], (c["psize"] > c["size"]) - (c["psize"] < c["size"]),
                           c["db"] == c["b"], (c["db"] * ds > c["b"] * c["size"]) - (c["db"] * ds < c["b"] * c["size"]), c["dist"][:2], c["cls"],
                           c["kxe"] == c["k"])
                    nontrivial = c["op"] == "glwe_zero_sk" or any(x != 0 for l in c["pt"] for x in l) or c["cls"] == "zero"
                    ctx.count_case(key, nontrivial)
                    if got != want:
                        ctx.disagreements += 1
                        if len(broken) < 20:
                            which = "ciphertext" if got[:1] != want[:1] else "decryption"
                            broken.append(f"model/implementation disagree on the {which}: {hl[i][:300]}")
                            ctx.cov.setdefault("first_disagreement", {"harness": hl[i], "impl": hout[i], "model": ln})
                    un = unnormalised(c, a)
                    if un:
                        ctx.cov["unnormalised_decrypted_digits"] = ctx.cov.get("unnormalised_decrypted_digits", 0) + un
                        ctx.cov["unnormalised_same_radix"] = ctx.cov.get("unnormalised_same_radix", 0) + (un if c["db"] == c["b"] else 0)
                    o = oracle(c, a)
                    if o is not None:
                        ctx.oracle_failures += 1
                        if witness is None:
                            witness = {"case": hl[i], "implementation": hout[i], "oracle": o, "rerun": f"printf '%s\\n' '{hl[i]}' | harness/target/release/pvh enc"}
                    if len(ctx.samples) < 8 and i % 171 == 0:
                        ctx.samples.append({"request": hl[i][:400], "implementation": hout[i][:400], "model": ln[:400]})
            ctx.cov["outcomes"] = hist
            ctx.cov["by_op"] = {op: sum(1 for c in cases if c["op"] == op) for op in sorted(set(OPS))}
            ctx.cov["by_backend"] = {be: sum(1 for c in cases if c["be"] == be) for be in BES}
            ctx.cov["radix_hist"] = {str(lo): sum(1 for c in cases if lo <= c["b"] < lo + 10) for lo in (1, 11, 21, 31, 41, 51)}
            ctx.cov["fft64_radix_41_48"] = sum(1 for c in cases if c["be"].startswith("fft64") and c["op"] != "lwe_sk" and 41 <= c["b"] <= 48)
            ctx.cov["cross_radix_decrypt"] = sum(1 for c in cases if c["db"] != c["b"])
    if binp and drv:
        beyond_domain_probe(ctx, binp, drv, rng.fork(), 48 if quick else 400)
    if binp:
        mismatch_probe(ctx, binp, drv, rng.fork(), 60 if quick else 600)
    if binp and drv:
        kw = keygen_gate(ctx, binp, drv, rng.fork(), 400 if quick else 4000, broken)
        if kw is not None and witness is None:
            ctx.violation("a generated key does not satisfy the key hypothesis of its consumers (phase = s_in*gadget + bounded error)", kw, True)
    if witness is not None:
        ctx.violation("decryption of a fresh ciphertext is not message + bounded error at the message's position", witness, True)
    elif broken:
        ctx.log("broken:", *broken[:6])
        ctx.violation("C01 obligation or correspondence no longer checks", {"broken": broken[:20], **({"first_disagreement": ctx.cov.get("first_disagreement")} if "first_disagreement" in ctx.cov else {})}, False)
    return ctx.finish(rule="case = (op in {glwe_sk, glwe_zero_sk, glwe_cmp, glwe_pk, lwe_sk}, back end, N in {8,16,32}, rank 0..3, radix in the back end's "
                           "magnitude domain, ct size 1..5, k mostly not a multiple of the radix, noise precision <,=,> k, pt size <,=,> ct size, decrypt radix "
                           "same/different, decrypt precision <,=,> ct precision, secret distribution, message class, sigma/bound, seeds); distinct = (op, be, N, "
                           "rank, radix bucket, ct size, pt-size relation, same-radix?, precision relation, distribution kind, message class, kxe=k?); each case "
                           "is compared limb for limb (ciphertext and decryption) with the Lean model and evaluated by the big-integer oracle")
