"""Independent property oracle for `hal` programs: evaluates a program directly from the
property statement (exact negacyclic products over Python integers, limb selection with zero fill,
frame) — written separately from the Lean model, used by the failure search to decide which side
of a model/implementation disagreement violates the property."""

M64 = (1 << 64) - 1


def w64(x):
    x &= M64
    return x - (1 << 64) if x >> 63 else x


class Gen:
    def __init__(self, s):
        self.kind = 0
        self.bits = 0
        self.state = 0
        self.data = []
        self.pos = 0
        if s == "z":
            return
        if s.startswith("d:"):
            self.kind = 2
            r = s[2:]
            self.data = [] if r in ("", "-") else [int(v) for v in r.split(",")]
        else:
            self.kind = 1
            b, seed = s[1:].split(":")
            self.bits, self.state = int(b), int(seed)

    def next(self):
        if self.kind == 0:
            return 0
        if self.kind == 2:
            v = self.data[self.pos] if self.pos < len(self.data) else 0
            self.pos += 1
            return v
        self.state = (self.state + 0x9E3779B97F4A7C15) & M64
        z = self.state
        z = ((z ^ (z >> 30)) * 0xBF58476D1CE4E5B9) & M64
        z = ((z ^ (z >> 27)) * 0x94D049BB133111EB) & M64
        z ^= z >> 31
        if self.bits == 0:
            return 0
        if self.bits >= 64:
            return w64(z)
        m = z & ((1 << self.bits) - 1)
        return m - (1 << self.bits) if m >> (self.bits - 1) else m

    def poly(self, n):
        return [self.next() for _ in range(n)]


def negmul(a, b):
    n = len(b)
    out = [0] * n
    for i, x in enumerate(a):
        if x == 0:
            continue
        for j, y in enumerate(b):
            k = i + j
            if k < n:
                out[k] += x * y
            else:
                out[k - n] -= x * y
    return out


def padd(a, b):
    return [x + y for x, y in zip(a, b)]


def psub(a, b):
    return [x - y for x, y in zip(a, b)]


class Buf:
    def __init__(self, n, cols, size, data):
        self.n, self.cols, self.size, self.cap, self.data = n, cols, size, size, data   # data[c][j]

    def act(self, c):
        return self.data[c][: self.size]

    def set_act(self, c, limbs):
        assert len(limbs) == self.size
        self.data[c] = list(limbs) + self.data[c][self.size:]

    def flat(self):
        return [self.data[r % self.cols][r // self.cols] for r in range(self.size * self.cols)]


def run(line):
    """returns the answer string in the same format as the implementation ('ok seg …')"""
    parts = [p.split() for p in line.split(";")]
    head, stmts = parts[0], parts[1:]
    n = 8
    for t in head:
        if t.startswith("n="):
            n = int(t[2:])
    Z = lambda: [0] * n
    env = {}
    out = ["ok"]

    def mk(cols, size, g):
        gen = Gen(g)
        return Buf(n, cols, size, [[gen.poly(n) for _ in range(size)] for _ in range(cols)])

    def limb(col, j):
        return col[j] if j < len(col) else Z()

    def select(step, off, rs, a):
        steps = -(-len(a) // step)
        ms = min(rs, steps)
        return [(a[off + j * step] if j < ms and off + j * step < len(a) else Z()) for j in range(rs)]

    def cnv(rs, off, a, b):
        bound = len(a) + len(b) - 1
        ms = min(rs, bound)
        off = min(off, bound)
        res = []
        for k in range(rs):
            if k >= ms:
                res.append(Z())
                continue
            kk = k + off
            acc = Z()
            for j in range(len(b)):
                i = kk - j
                if 0 <= i < len(a):
                    acc = padd(acc, negmul(a[i], b[j]))
            res.append(acc)
        return res

    for st in stmts:
        if not st:
            continue
        op = st[0]
        I = int
        if op in ("vec", "big", "dft"):
            env[st[1]] = mk(I(st[2]), I(st[3]), st[4])
        elif op == "sca":
            gen = Gen(st[3])
            env[st[1]] = [gen.poly(n) for _ in range(I(st[2]))]
        elif op == "mat":
            rows, cin, cout, size = I(st[2]), I(st[3]), I(st[4]), I(st[5])
            gen = Gen(st[6])
            env[st[1]] = dict(rows=rows, cin=cin, cout=cout, size=size,
                              data=[[[gen.poly(n) for _ in range(size)] for _ in range(cout)] for _ in range(rows * cin)])
        elif op == "svp":
            env[st[1]] = [Z() for _ in range(I(st[2]))]
        elif op == "vmp":
            env[st[1]] = None
        elif op in ("cnvl", "cnvr"):
            env[st[1]] = Buf(n, I(st[2]), I(st[3]), [[Z() for _ in range(I(st[3]))] for _ in range(I(st[2]))])
        elif op == "setsize":
            env[st[1]].size = I(st[2])
        elif op in ("dft_apply", "dft_copy"):
            d, x = env[st[3]], env[st[5]]
            d.set_act(I(st[4]), select(I(st[1]), I(st[2]), d.size, x.act(I(st[6]))))
        elif op in ("idft", "idft_tmpa"):
            b, d = env[st[1]], env[st[3]]
            a = d.act(I(st[4]))
            b.set_act(I(st[2]), [limb(a, j) if j < len(a) else Z() for j in range(b.size)])
            if op == "idft_tmpa":
                ms = min(b.size, len(a))
                d.set_act(I(st[4]), [None if j < ms else a[j] for j in range(len(a))])
        elif op == "idft_consume":
            d = env.pop(st[2])
            env[st[1]] = Buf(n, d.cols, d.size, [d.act(c) for c in range(d.cols)])
        elif op in ("dft_add", "dft_sub"):
            d, a, b = env[st[1]], env[st[3]].act(I(st[4])), env[st[5]].act(I(st[6]))
            f = padd if op == "dft_add" else psub
            d.set_act(I(st[2]), [f(limb(a, j), limb(b, j)) for j in range(d.size)])
        elif op in ("dft_add_assign", "dft_sub_assign", "dft_sub_negate_assign"):
            d, a = env[st[1]], env[st[3]].act(I(st[4]))
            r = d.act(I(st[2]))
            if op == "dft_add_assign":
                nr = [padd(r[j], a[j]) if j < len(a) else r[j] for j in range(len(r))]
            elif op == "dft_sub_assign":
                nr = [psub(r[j], a[j]) if j < len(a) else r[j] for j in range(len(r))]
            else:
                nr = [psub(a[j], r[j]) if j < len(a) else [-v for v in r[j]] for j in range(len(r))]
            d.set_act(I(st[2]), nr)
        elif op == "dft_add_scaled_assign":
            d, a, sc = env[st[1]], env[st[3]].act(I(st[4])), I(st[5])
            r = d.act(I(st[2]))
            rs, asz = len(r), len(a)
            nr = list(r)
            if sc > 0:
                sh = min(sc, asz)
                for j in range(max(0, min(asz, rs) - sh)):
                    nr[j] = padd(r[j], a[j + sh])
            elif sc < 0:
                sh = min(-sc, rs)
                for j in range(min(asz, rs - sh)):
                    nr[j + sh] = padd(r[j + sh], a[j])
            else:
                for j in range(min(asz, rs)):
                    nr[j] = padd(r[j], a[j])
            d.set_act(I(st[2]), nr)
        elif op == "dft_zero":
            d = env[st[1]]
            d.set_act(I(st[2]), [Z() for _ in range(d.size)])
        elif op == "svp_prepare":
            env[st[1]][I(st[2])] = env[st[3]][I(st[4])]
        elif op in ("svp_apply_dft", "svp_apply_dft_to_dft"):
            d, p, x = env[st[1]], env[st[3]][I(st[4])], env[st[5]].act(I(st[6]))
            d.set_act(I(st[2]), [negmul(p, x[j]) if j < len(x) else Z() for j in range(d.size)])
        elif op == "svp_apply_dft_to_dft_assign":
            d, p = env[st[1]], env[st[3]][I(st[4])]
            d.set_act(I(st[2]), [negmul(p, l) for l in d.act(I(st[2]))])
        elif op == "vmp_prepare":
            env[st[1]] = env[st[2]]
        elif op in ("vmp_apply_dft_to_dft", "vmp_apply_dft"):
            d, a, m = env[st[1]], env[st[2]], env[st[3]]
            lo = I(st[4]) if op == "vmp_apply_dft_to_dft" else 0
            if op == "vmp_apply_dft":
                sz = min(a.size, m["rows"])
                afl = [a.data[r % a.cols][r // a.cols] for r in range(sz * a.cols)]
            else:
                afl = a.flat()
            off = lo * m["cout"]
            nrows, ncols = m["cin"] * m["rows"], m["cout"] * m["size"]
            rowmax = min(nrows, len(afl))
            rl = d.size * d.cols
            colmax = min(ncols, rl + off)
            fl = []
            for r in range(rl):
                if off < colmax and r < colmax - off:
                    q = r + off
                    acc = Z()
                    for j in range(rowmax):
                        acc = padd(acc, negmul(afl[j], m["data"][j][q % m["cout"]][q // m["cout"]]))
                    fl.append(acc)
                else:
                    fl.append(Z())
            for c in range(d.cols):
                d.set_act(c, [fl[j * d.cols + c] for j in range(d.size)])
        elif op in ("cnv_prepare_left", "cnv_prepare_right", "cnv_prepare_self"):
            if op == "cnv_prepare_self":
                targets, x, mask = [env[st[1]], env[st[2]]], env[st[3]], I(st[4])
            else:
                targets, x, mask = [env[st[1]]], env[st[2]], I(st[3])
            for l in targets:
                for c in range(l.cols):
                    a = x.act(c)
                    ms = min(l.size, len(a))
                    col = []
                    for j in range(l.size):
                        if j + 1 == ms:
                            col.append([w64((v & M64) & (mask & M64)) for v in a[j]])
                        elif j < ms:
                            col.append(list(a[j]))
                        else:
                            col.append(Z())
                    l.set_act(c, col)
        elif op == "cnv_apply_dft":
            d = env[st[2]]
            d.set_act(I(st[3]), cnv(d.size, I(st[1]), env[st[4]].act(I(st[5])), env[st[6]].act(I(st[7]))))
        elif op == "cnv_pairwise":
            d, l, r, i, j = env[st[2]], env[st[4]], env[st[5]], I(st[6]), I(st[7])
            if i == j:
                a, b = l.act(i), r.act(j)
            else:
                a = [padd(x, y) for x, y in zip(l.act(i), l.act(j))]
                b = [padd(x, y) for x, y in zip(r.act(i), r.act(j))]
            d.set_act(I(st[3]), cnv(d.size, I(st[1]), a, b))
        elif op == "cnv_by_const":
            d, a, cs = env[st[2]], env[st[4]].act(I(st[5])), [int(v) for v in st[6].split(",")]
            be = [t for t in head if t.startswith("be=")][0][3:]
            bits = 128 if be.startswith("ntt120") else 64
            def wrap(v):
                v &= (1 << bits) - 1
                return v - (1 << bits) if v >> (bits - 1) else v
            bound = len(a) + len(cs) - 1
            ms = min(d.size, bound)
            off = min(I(st[1]), bound)
            res = []
            for k in range(d.size):
                acc = Z()
                if k < ms:
                    kk = k + off
                    for j in range(len(cs)):
                        i = kk - j
                        if 0 <= i < len(a):
                            acc = [x + cs[j] * y for x, y in zip(acc, a[i])]
                res.append([wrap(v) for v in acc])
            d.set_act(I(st[3]), res)
        elif op == "dump":
            b = env[st[1]]
            vals = []
            for c in range(b.cols):
                for l in b.act(c):
                    vals += (["?"] * n) if l is None else [str(v) for v in l]
            out.append(f"{st[1]}={b.cols}x{b.size}:" + (",".join(vals) if vals else "-"))
        else:
            raise ValueError("oracle: unknown statement " + op)
    return " ".join(out)
