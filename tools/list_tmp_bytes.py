#!/usr/bin/env python3
"""Enumerates every scratch-size query of the library: `fn <name>tmp_bytes…(` in the non-test sources of
poulpy-hal, poulpy-cpu-ref, poulpy-cpu-avx, poulpy-core, poulpy-ckks and poulpy-bin-fhe.

A query usually appears several times (api trait, delegate, oep trait, `_default` body, reference free
function, per-back-end impl).  Names are canonicalised (suffix `_default` dropped, back-end prefixes
`fft64_` / `ntt120_` dropped, the `reference` free functions mapped to their API name) and reported once
with the crate(s) they occur in.

    tools/list_tmp_bytes.py [--repo /repo] [--json]
"""
import json
import os
import re
import sys

CRATES = ["poulpy-hal", "poulpy-cpu-ref", "poulpy-cpu-avx", "poulpy-core", "poulpy-ckks", "poulpy-bin-fhe"]
FN = re.compile(r"\bfn\s+([A-Za-z0-9_]*tmp_bytes[A-Za-z0-9_]*)\s*[<(]")
# macro-generated methods: `fn [<$method_name _tmp_bytes>]<..>(` (paste!), reported as `$method_name_tmp_bytes`
FN_MACRO = re.compile(r"\bfn\s+\[<\s*\$(\w+)\s+(_[A-Za-z0-9_]*tmp_bytes)\s*>\]")

# free functions of poulpy-cpu-ref's `reference` modules -> the API query they implement
ALIAS = {
    "convolution_apply_dft_tmp_bytes": "cnv_apply_dft_tmp_bytes",
    "convolution_by_const_apply_tmp_bytes": "cnv_by_const_apply_tmp_bytes",
    "convolution_pairwise_apply_dft_tmp_bytes": "cnv_pairwise_apply_dft_tmp_bytes",
}


def canon(name):
    n = name
    for pre in ("fft64_", "ntt120_default_", "ntt120_"):
        if n.startswith(pre):
            n = n[len(pre):]
    if n.endswith("_default"):
        n = n[: -len("_default")]
    return ALIAS.get(n, n)


def scan(repo):
    found = {}
    for crate in CRATES:
        base = os.path.join(repo, crate, "src")
        for dp, dns, fns in os.walk(base):
            if any(part in ("tests", "test_suite", "benches") for part in dp.split(os.sep)):
                continue
            for f in fns:
                if not f.endswith(".rs") or f in ("tests.rs",):
                    continue
                path = os.path.join(dp, f)
                try:
                    txt = open(path, encoding="utf-8", errors="replace").read()
                except OSError:
                    continue
                for m in FN.finditer(txt):
                    c = canon(m.group(1))
                    found.setdefault(c, set()).add(crate)
                for m in FN_MACRO.finditer(txt):
                    found.setdefault("$" + m.group(1) + m.group(2), set()).add(crate)
    return found


def main():
    repo = "/repo"
    if "--repo" in sys.argv:
        repo = sys.argv[sys.argv.index("--repo") + 1]
    found = scan(repo)
    if "--json" in sys.argv:
        print(json.dumps({k: sorted(v) for k, v in sorted(found.items())}, indent=1))
    else:
        for k, v in sorted(found.items()):
            print(f"{k}\t{','.join(sorted(v))}")
        print(f"# {len(found)} distinct queries", file=sys.stderr)


if __name__ == "__main__":
    main()
