#!/bin/sh
# apply_fix.sh <diff> <msg-file> [git-apply options]: apply a validated repair to /repo and commit it with its message.
# Refuses to run on a dirty tree and stages only what the patch touches (never `add -A`: an untracked leftover must not ride along).
D="$1"; M="$2"; shift 2
[ -z "$(git -C /repo status --porcelain)" ] || { echo "REFUSED: /repo has uncommitted or untracked files:"; git -C /repo status --short; exit 1; }
git -C /repo apply --index "$@" "$D" || { echo "FAILED to apply $D"; exit 1; }
git -C /repo commit -q -F "$M" && git -C /repo log -1 --format='%h %s' | cut -c1-120
