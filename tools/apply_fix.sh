#!/bin/sh
# apply_fix.sh <diff> <msg-file> [git-apply options]: apply a validated repair to /repo and commit it with its message
D="$1"; M="$2"; shift 2
git -C /repo apply "$@" "$D" || { echo "FAILED to apply $D"; exit 1; }
git -C /repo add -A && git -C /repo commit -q -F "$M" && git -C /repo log -1 --format='%h %s' | cut -c1-120
