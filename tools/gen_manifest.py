#!/usr/bin/env python3
"""Writes MANIFEST.json from the table below (keeps the file schema-valid and consistent)."""
import json, os
HERE = os.path.dirname(os.path.dirname(os.path.abspath(__file__)))
BASE_TB = ("Trusted: Lean 4.33.0 kernel; axioms propext/Classical.choice/Quot.sound; the hand-written Lean model as a reading of the Rust, "
           "tied to /repo on every run by the correspondence harness (harness/ + lean/Driver.lean + ./check), whose generator bounds what it sees. ")
def load_checks():
    d = {}
    mdir = os.path.join(HERE, "vlib", "manifest")
    for f in sorted(os.listdir(mdir)):
        if f.endswith(".json"):
            c = json.load(open(os.path.join(mdir, f)))
            c["note"] = BASE_TB + c.get("note", "")
            d[f[:-5]] = c
    return d
CHECKS = load_checks()
PENDING = {}
ALL = ["C%02d" % i for i in range(1, 21)]
def main():
    na_reasons = json.load(open(os.path.join(HERE, "tools", "not_applicable.json")))
    checks = []
    for pid in ALL:
        if pid not in CHECKS:
            continue
        c = CHECKS[pid]
        checks.append({
            "property_id": pid,
            "quick_cmd": f"./check {pid} --tier quick",
            "thorough_cmd": f"./check {pid} --tier thorough",
            "evidence_file": f"evidence/{pid}.json",
            "replay_cmd_template": f"./check {pid} --replay {{path}}",
            "engine": "lean-model+pvh-harness",
            "level_claimed": {"category": "proof", "text": c["text"], "design_ref": c["design"]},
            "level_note": c["note"],
            "technique": c["technique"],
        })
    man = {
        "version": 1,
        "setup_cmd": "./setup.sh",
        "hooks": {
            "guard": "cargo feature verif-hooks (poulpy-bin-fhe, poulpy-cpu-ref)",
            "enable": "harness/Cargo.toml depends on /repo's crates by path with features = [\"verif-hooks\"]; ./check rebuilds it with cargo build --offline on every run",
            "baseline_off_cmd": "cd /repo && cargo nextest run --workspace --no-fail-fast --test-threads 8 --offline || cargo test --workspace --no-fail-fast --offline",
            "source_commits": json.load(open(os.path.join(HERE, "tools", "hook_commits.json"))),
            "add_only": True,
        },
        "engines": [
            {"name": "lean-model", "path": "lean/", "serves_properties": [c["property_id"] for c in checks],
             "kind_free_text": "Lean 4 model (Poulpy/Model), property theorems (Poulpy/Props), compiled model driver (pdriver)"},
            {"name": "pvh-harness", "path": "harness/", "serves_properties": [c["property_id"] for c in checks],
             "kind_free_text": "Rust harness linking /repo's crates in-process (all back ends), line protocol"},
            {"name": "circuit-translator", "path": "tools/gen_circuits.py", "serves_properties": ["C13"],
             "kind_free_text": "regenerates the Lean circuit tables and proof scripts from *_codegen.rs"},
        ],
        "checks": checks,
        "notes": "See DESIGN.md. Every check: proof gate (lake build + axiom audit) then tie to the code, then failure search; known findings in known_findings.json.",
        "not_applicable": [{"property_id": p, "reason": na_reasons.get(p, "check not built yet in this revision; planned (DESIGN.md §10)")}
                           for p in ALL if p not in CHECKS],
    }
    with open(os.path.join(HERE, "MANIFEST.json"), "w") as fh:
        json.dump(man, fh, indent=1)
        fh.write("\n")
if __name__ == "__main__":
    main()
