#!/usr/bin/env python3
"""Lists every condition of poulpy-hal / poulpy-cpu-ref / poulpy-cpu-avx that is checked only in builds with debug
assertions: `debug_assert!/debug_assert_eq!/debug_assert_ne!` and `assert!/assert_eq!/assert_ne!` inside a
`#[cfg(debug_assertions)]` block (or after a `#[cfg(debug_assertions)]` attribute on the statement).

Output (TSV on stdout): crate-relative file, line, enclosing fn, kind, in-bounds relevance, raw-pointer context, condition.
  relevance  = `len` when the condition compares lengths / sizes / columns / ring degrees / indices (what an index or
               pointer computation depends on), `value` otherwise (value ranges, flags, alignment of constants ...)
  raw        = `raw` when the enclosing fn (or the kernel it is a method of) contains `unsafe`, `as_ptr`, `as_mut_ptr`,
               `from_raw_parts`, `_mm256_`, `get_unchecked` — i.e. the condition guards unchecked memory accesses directly;
               `safe` when every access of the fn goes through checked slices (a violated condition can at worst panic
               or compute garbage there, unless it is forwarded to a raw kernel).
Usage: tools/list_debug_asserts.py [--repo /repo] [--summary]
"""
import argparse
import os
import re
import sys

CRATES = ["poulpy-hal", "poulpy-cpu-ref", "poulpy-cpu-avx"]
LEN_WORDS = re.compile(r"\.len\(\)|\bn\(\)|\.size\(\)|\.cols\(\)|\.rows\(\)|cols_in|cols_out|\bsize\b|\blen\b|<=|>=|<|>|is_multiple_of|%|& \(|\.is_power_of_two|nrows|ncols|\bblk\b|\bm\b|\bn\b|offset|limb")
RAW_WORDS = re.compile(r"\bunsafe\b|as_ptr\(|as_mut_ptr\(|from_raw_parts|_mm256_|_mm_|get_unchecked|\.add\(|write_unaligned")
ASSERT = re.compile(r"\b(debug_assert(?:_eq|_ne)?|assert(?:_eq|_ne)?)!\s*\(")
FN = re.compile(r"\bfn\s+([A-Za-z0-9_]+)")


def balanced(text, start):
    """text[start] == '(' -> index after the matching ')'"""
    depth = 0
    i = start
    while i < len(text):
        c = text[i]
        if c == "(":
            depth += 1
        elif c == ")":
            depth -= 1
            if depth == 0:
                return i + 1
        elif c == '"':
            i += 1
            while i < len(text) and text[i] != '"':
                if text[i] == "\\":
                    i += 1
                i += 1
        i += 1
    return len(text)


def fn_spans(text):
    """[(name, start, end)] of top-level-ish fn bodies (brace matching from the fn's first '{')"""
    out = []
    for m in FN.finditer(text):
        i = text.find("{", m.end())
        semi = text.find(";", m.end())
        if i < 0 or (0 <= semi < i):
            continue
        depth = 0
        j = i
        while j < len(text):
            if text[j] == "{":
                depth += 1
            elif text[j] == "}":
                depth -= 1
                if depth == 0:
                    break
            j += 1
        out.append((m.group(1), m.start(), j + 1))
    return out


def cfg_debug_regions(text):
    """character ranges governed by a #[cfg(debug_assertions)] attribute: the following block `{...}` or statement"""
    regs = []
    for m in re.finditer(r"#\[cfg\(debug_assertions\)\]", text):
        i = m.end()
        while i < len(text) and text[i] in " \t\r\n":
            i += 1
        if i < len(text) and text[i] == "{":
            depth = 0
            j = i
            while j < len(text):
                if text[j] == "{":
                    depth += 1
                elif text[j] == "}":
                    depth -= 1
                    if depth == 0:
                        break
                j += 1
            regs.append((i, j + 1))
        else:
            j = text.find(";", i)
            regs.append((i, j + 1 if j >= 0 else len(text)))
    return regs


def scan(repo):
    rows = []
    for crate in CRATES:
        base = os.path.join(repo, crate, "src")
        for dp, _, fs in os.walk(base):
            for f in sorted(fs):
                if not f.endswith(".rs"):
                    continue
                path = os.path.join(dp, f)
                text = open(path, encoding="utf-8").read()
                # drop test modules
                tm = re.search(r"#\[cfg\((?:all\()?test", text)
                body = text[:tm.start()] if tm else text
                spans = fn_spans(body)
                regs = cfg_debug_regions(body)
                for m in ASSERT.finditer(body):
                    kind = m.group(1)
                    pos = m.start()
                    # skip commented lines
                    ls = body.rfind("\n", 0, pos) + 1
                    if body[ls:pos].lstrip().startswith("//"):
                        continue
                    debug_only = kind.startswith("debug_") or any(a <= pos < b for a, b in regs)
                    if not debug_only:
                        continue
                    end = balanced(body, m.end() - 1)
                    cond = " ".join(body[m.end():end - 1].split())
                    cond = cond.split(', "')[0]
                    encl = [s for s in spans if s[1] <= pos < s[2]]
                    encl.sort(key=lambda s: s[2] - s[1])
                    fname = encl[0][0] if encl else "?"
                    fbody = body[encl[0][1]:encl[0][2]] if encl else ""
                    rel = "len" if LEN_WORDS.search(cond) else "value"
                    raw = "raw" if RAW_WORDS.search(fbody) else "safe"
                    line = body.count("\n", 0, pos) + 1
                    rows.append((os.path.relpath(path, repo), line, fname, "debug_assert" if kind.startswith("debug_") else "cfg(debug_assertions)", rel, raw, cond))
    return rows


def main():
    ap = argparse.ArgumentParser()
    ap.add_argument("--repo", default="/repo")
    ap.add_argument("--summary", action="store_true")
    a = ap.parse_args()
    rows = scan(a.repo)
    if a.summary:
        from collections import Counter
        c = Counter((r[0].split("/")[0], r[4], r[5]) for r in rows)
        for k, v in sorted(c.items()):
            print("\t".join(k), v, sep="\t")
        print("total", len(rows), sep="\t")
        byfile = Counter(r[0] for r in rows if r[4] == "len" and r[5] == "raw")
        for k, v in byfile.most_common():
            print("len+raw", k, v, sep="\t")
        return
    print("file\tline\tfn\tkind\trelevance\tcontext\tcondition")
    for r in rows:
        print("\t".join(str(x) for x in r))


if __name__ == "__main__":
    main()
