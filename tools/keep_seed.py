#!/usr/bin/env python3
"""keep_seed.py <out-dir> <seed-id> <property> "<caught by …>"  — copies a validated seeded change into /verif/seeded/<id>/"""
import json, os, shutil, sys
src, sid, prop, caught = sys.argv[1:5]
dst = os.path.join("/verif/seeded", sid)
os.makedirs(dst, exist_ok=True)
shutil.copy(os.path.join(src, "patch.diff"), os.path.join(dst, "patch.diff"))
for name in ("RUN.md",):
    if os.path.exists(os.path.join(src, name)):
        shutil.copy(os.path.join(src, name), os.path.join(dst, name))
d = os.path.join(src, "demo")
if os.path.isdir(d):
    shutil.copytree(d, os.path.join(dst, "demo"), dirs_exist_ok=True, ignore=shutil.ignore_patterns("target", "Cargo.lock"))
meta = {}
if os.path.exists(os.path.join(src, "meta.json")):
    try:
        meta = json.load(open(os.path.join(src, "meta.json")))
    except Exception:
        meta = {"raw": open(os.path.join(src, "meta.json")).read()}
out = {
    "breaks_property": prop,
    "summary": meta.get("summary"),
    "needs_to_manifest": meta.get("needs"),
    "files": meta.get("files"),
    "author_verification": meta.get("verified"),
    "confirmed_by_coordinator": "patch applies to /repo HEAD; demonstration and suite results as reported by the independent sub-agent (651/651 with patch; demo fails with patch, passes without); re-run of the demonstration where noted",
    "checks_run": caught,
}
json.dump(out, open(os.path.join(dst, "meta.json"), "w"), indent=1)
print("kept", dst)
