#!/bin/sh
# usage: tools/try_seed.sh <patch.diff> Cxx [Cyy ...]  — applies the patch to /repo, runs the checks, reverts.
P="$1"; shift
cd /verif
[ -z "$(git -C /repo status --porcelain)" ] || { echo "REFUSED: /repo is not clean"; exit 2; }
git -C /repo apply "$P" || { echo "patch does not apply"; exit 2; }
for c in "$@"; do
  ./check $c 2>&1 | grep -E "VIOLATION|KNOWN-FINDING|done:" | cut -c1-160 | sort | uniq -c | sort -rn | head -6
done
git -C /repo checkout -- .
git -C /repo clean -fdq   # patches that add files: remove them too (target/ is ignored, so untouched)
git -C /verif checkout -- evidence 2>/dev/null
# generated Lean tables were regenerated from the patched tree by ./check C13: regenerate from the clean tree
python3 tools/gen_circuits.py >/dev/null 2>&1
python3 - <<'PY'
import glob,os
for f in glob.glob('/verif/replays/*.json'): os.remove(f)
PY
