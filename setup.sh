#!/bin/sh
# Builds the framework from files on disk only (offline). Run once in /verif after a fresh restore.
set -e
cd "$(dirname "$0")"
export CARGO_NET_OFFLINE=true
python3 tools/gen_circuits.py
python3 tools/gen_registry.py
cp /repo/Cargo.lock harness/Cargo.lock
cp /repo/rust-toolchain.toml harness/rust-toolchain.toml
(cd harness && cargo build --release --offline 2>&1 | tail -3)
(cd lean && lake build Poulpy pdriver 2>&1 | tail -3)
